import hashlib, hmac
P=2**256-2**32-977
N=0xFFFFFFFFFFFFFFFFFFFFFFFFFFFFFFFEBAAEDCE6AF48A03BBFD25E8CD0364141
G=(0x79BE667EF9DCBBAC55A06295CE870B07029BFCDB2DCE28D959F2815B16F81798,0x483ADA7726A3C4655DA4FBFC0E1108A8FD17B448A68554199C47D08FFB10D4B8)
def inv(a,m): return pow(a,-1,m)
def add(a,b):
    if a is None: return b
    if b is None: return a
    if a[0]==b[0]:
        if (a[1]+b[1])%P==0: return None
        l=(3*a[0]*a[0])*inv(2*a[1],P)%P
    else:
        l=(b[1]-a[1])*inv(b[0]-a[0],P)%P
    x=(l*l-a[0]-b[0])%P
    return (x,(l*(a[0]-x)-a[1])%P)
def mul(k,pt):
    r=None
    while k:
        if k&1: r=add(r,pt)
        pt=add(pt,pt); k>>=1
    return r
def rfc6979(x,h1):
    # h1: 32 bytes
    z=int.from_bytes(h1,'big')%N
    bx=x.to_bytes(32,'big')+z.to_bytes(32,'big')
    V=b'\x01'*32; K=b'\x00'*32
    K=hmac.new(K,V+b'\x00'+bx,hashlib.sha256).digest(); V=hmac.new(K,V,hashlib.sha256).digest()
    K=hmac.new(K,V+b'\x01'+bx,hashlib.sha256).digest(); V=hmac.new(K,V,hashlib.sha256).digest()
    while True:
        V=hmac.new(K,V,hashlib.sha256).digest()
        k=int.from_bytes(V,'big')
        if 1<=k<N: return k
        K=hmac.new(K,V+b'\x00',hashlib.sha256).digest(); V=hmac.new(K,V,hashlib.sha256).digest()
def sign(x,digest,kdigest=None):
    k=rfc6979(x,kdigest or digest)
    z=int.from_bytes(digest,'big')%N
    R=mul(k,G); r=R[0]%N
    s=inv(k,N)*(z+r*x)%N
    if s>N//2: s=N-s
    return r,s
if __name__=='__main__':
    import sys
    for line in sys.stdin:
        t=line.split()
        if not t or t[0]!='CASE': continue
        mode,x,msg,r,s=t[1],int(t[2],16),bytes.fromhex(t[3]) if t[3]!='-' else b'',int(t[4],16),int(t[5],16)
        if mode.startswith('sha256d'): d=hashlib.sha256(hashlib.sha256(msg).digest()).digest()
        elif mode.startswith('sha256'): d=hashlib.sha256(msg).digest()
        else: d=msg
        kd=d[::-1] if mode.endswith('_rev') else d
        er,es=sign(x,d,kd)
        print(mode, 'OK' if (er,es)==(r,s) else 'MISMATCH', hex(x)[:12], len(msg))
