#!/usr/bin/env python3
"""tools/tune_thresholds.py <PROP> <tier> [factor]  — set MIN_HITS[tier] of vf/checks/<PROP>.py to factor (default 0.6) x the class hits
observed in the evidence file of the last run of that tier (only for the classes already listed). The thresholds only guard against a run
that observed (almost) nothing; they are not part of any verdict on the library."""
import ast, importlib, json, os, pprint, sys

V = os.path.dirname(os.path.dirname(os.path.abspath(__file__)))
sys.path.insert(0, V)
prop, tier = sys.argv[1], sys.argv[2]
factor = float(sys.argv[3]) if len(sys.argv) > 3 else 0.6
ev = json.load(open(os.path.join(V, "evidence", prop + ".json")))
assert ev["tier"] == tier, "evidence is from tier %s" % ev["tier"]
hits = ev["coverage"]["class_hits"]
mod = importlib.import_module("vf.checks." + prop)
mh = {k: dict(v) for k, v in mod.MIN_HITS.items()}
new = {}
for cls in mh.get(tier, {}):
    if cls not in hits:
        print("class never hit:", cls)
        continue
    new[cls] = max(1, int(hits[cls] * factor))
mh[tier] = new
path = os.path.join(V, "vf", "checks", prop + ".py")
src = open(path).read()
tree = ast.parse(src)
node = [n for n in tree.body if isinstance(n, ast.Assign) and any(isinstance(t, ast.Name) and t.id == "MIN_HITS" for t in n.targets)][0]
lines = src.splitlines(keepends=True)
start = sum(len(l) for l in lines[: node.lineno - 1])
end = sum(len(l) for l in lines[: node.end_lineno - 1]) + node.end_col_offset
body = "MIN_HITS = {\n" + "".join("    %r: %s,\n" % (t, json.dumps(mh[t])) for t in mh) + "}"
src = src[:start] + body + src[end:]
compile(src, path, "exec")
open(path + ".tmp", "w").write(src)
os.replace(path + ".tmp", path)
print(prop, tier, new)
