#!/usr/bin/env python3
"""Regenerate /verif/MANIFEST.json from the monitors that exist under vf/checks (one entry per property)."""
import importlib
import json
import os
import subprocess
import sys

V = os.path.dirname(os.path.dirname(os.path.abspath(__file__)))
sys.path.insert(0, V)
props = [json.loads(l) for l in open(os.path.join(V, "properties.jsonl"))]

TECH = {
    "C01": "reference-model monitor: independent wire codec vs recorded decode/encode/accessor events; fixed-point monitor on accepted mutants",
    "C02": "reference-model monitor: independent tokenizer/nesting rule vs recorded parse events (exhaustive 1-2 byte scripts); process-death supervision for deep nesting",
    "C03": "reference-model monitor: independent BIP143/FORKID serialiser + reference ECDSA verifier over recorded sighash/sign events",
    "C04": "history monitor: per-step clone/fresh-parse sighash probes and cache-slot hook over bounded-exhaustive and long random mutation histories",
    "C05": "reference-model monitor: independent secp256k1 + RFC 6979 vs recorded signing/verification events",
    "C06": "reference-model monitor: strict DER / compact codec + reference key recovery vs recorded codec events",
    "C07": "reference-model monitor: independent secp256k1 / Base58Check / WIF vs recorded key and address events",
    "C08": "reference-model monitor: independent BIP32 vs recorded derivation/serialisation events; corruption workload",
    "C09": "panic monitor + allocation-guard monitor + process-death supervision over hostile decoder workloads; ASan and Miri replays of the corpus",
    "C10": "reference-model monitor: independent original-algorithm sighash serialiser vs recorded preimage events",
    "C11": "reference-model monitor: independent BIE1 (ECDH, SHA-512, AES-128-CBC, HMAC) vs recorded encrypt/decrypt events; exhaustive single-bit tamper workload",
    "C12": "reference-model monitor: independent BSM digest + RFC 6979 + recovery vs recorded sign/verify events",
    "C13": "reference-model monitor: hashlib / textbook HMAC / PBKDF2 vs recorded hash events; chunking workload on the streaming adapters",
    "C14": "reference-model monitor: independent BSV script interpreter vs single-stepped execution traces (bounded-exhaustive opcode x operand alphabet)",
    "C15": "reference-model monitor: reference sighash + ECDSA acceptance predicate vs interpreter outcomes under single-field mutation workloads",
    "C16": "panic monitor + step-vs-run differential monitor + logical step bound over hostile programs; ASan/Miri replays",
    "C17": "reference-model monitor: independent ASM renderer/tokenizer vs recorded to_asm/from_asm events (exhaustive small token alphabets)",
    "C18": "round-trip monitor: accessor-level dump before/after JSON and CBOR trips, wire bytes and id compared",
    "C19": "reference-model monitor: independent template matcher / criteria selector vs recorded match events",
    "C20": "reference-model monitor: from-scratch FIPS-197 AES (CBC/PKCS7, CTR) vs recorded encrypt/decrypt events",
}

checks = []
na = []
for p in props:
    pid = p["id"]
    path = os.path.join(V, "vf", "checks", pid + ".py")
    if not os.path.exists(path):
        na.append({"property_id": pid, "reason": "monitor not built yet (build in progress); the design in DESIGN.md section 4 applies and no technique switch is intended"})
        continue
    checks.append(
        {
            "property_id": pid,
            "quick_cmd": "./check %s --tier quick" % pid,
            "thorough_cmd": "./check %s --tier thorough" % pid,
            "evidence_file": "/verif/evidence/%s.json" % pid,
            "replay_cmd_template": "./check %s --replay {path}" % pid,
            "engine": "bsvdrv+vf",
            "level_claimed": {
                "category": "exploration",
                "text": "Runtime monitoring of the real library (rebuilt from /repo's working tree with overflow checks on) under generated, boundary-heavy and hostile workloads; "
                "an oracle judges every recorded call/return event. Held-on-K-observed-executions, not a proof; finite sub-spaces that are enumerated completely are listed in the evidence.",
                "design_ref": "DESIGN.md section 4 (%s), section 2" % pid,
            },
            "level_note": "trusted base: the Python reference models in vf/ref (self-tested against published vectors at start-up), the thin bsvdrv adapter, rustc/cargo; verdicts cover only the executions observed",
            "technique": TECH[pid],
        }
    )

hook_commits = subprocess.run(["git", "-C", "/repo", "log", "--format=%H", "--grep=^verif hook"], capture_output=True, text=True).stdout.split()
m = {
    "version": 1,
    "setup_cmd": "cd /verif/harness && CARGO_NET_OFFLINE=true cargo build --profile chk && CARGO_NET_OFFLINE=true cargo build --profile rel && cd /verif && python3 -m vf.selftest",
    "hooks": {
        "guard": "bsv_verif",
        "enable": "rustc --cfg bsv_verif, set only by /verif/harness/.cargo/config.toml ([build] rustflags) when the driver crate builds /repo as a path dependency",
        "baseline_off_cmd": "cd /repo && cargo test --workspace --no-fail-fast --offline",
        "source_commits": hook_commits,
        "add_only": True,
    },
    "engines": [
        {"name": "bsvdrv+vf", "path": "/verif/harness, /verif/vf", "serves_properties": [c["property_id"] for c in checks], "kind_free_text": "Rust RPC adapter over the public API (catch_unwind, counting allocator + allocation guard, process-death supervision) driven by Python generators, reference models and oracles"}
    ],
    "checks": checks,
    "notes": "Exit codes: 0 held / known findings only, 1 unlisted violation (VIOLATION line + replay file), 2 inconclusive. Known findings: /verif/known_findings.json.",
    "not_applicable": na,
}
json.dump(m, open(os.path.join(V, "MANIFEST.json"), "w"), indent=1)
print("claimed:", [c["property_id"] for c in checks])
