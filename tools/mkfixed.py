#!/usr/bin/env python3
"""Rewrite the "fixed" list of known_findings.json from tools/fixed_table.json, resolving each fix commit by its subject line."""
import json, os, subprocess
V = os.path.dirname(os.path.dirname(os.path.abspath(__file__)))
log = subprocess.run(["git", "-C", "/repo", "log", "--format=%h %s"], capture_output=True, text=True).stdout.splitlines()
bysubj = {l.split(" ", 1)[1]: l.split()[0] for l in log}
table = json.load(open(os.path.join(V, "tools", "fixed_table.json")))
k = json.load(open(os.path.join(V, "known_findings.json")))
k["fixed"] = ["fixed: property=%s %s %s" % (t["property"], bysubj[t["subject"]], t["what"]) for t in table]
json.dump(k, open(os.path.join(V, "known_findings.json"), "w"), indent=1)
missing = [s for s in bysubj if s.startswith("fix:") and s not in {t["subject"] for t in table}]
print("fixed entries:", len(k["fixed"]), "unlisted fix commits:", missing)
