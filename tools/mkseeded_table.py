#!/usr/bin/env python3
"""Regenerate the seeded-change table of DESIGN.md section 10.5 from seeded/*/meta.json (rows between the table header and section 10.6)."""
import json, os, re
V = os.path.dirname(os.path.dirname(os.path.abspath(__file__)))
rows = []
stats = {}
for sid in sorted(os.listdir(os.path.join(V, "seeded"))):
    m = json.load(open(os.path.join(V, "seeded", sid, "meta.json")))
    esc = lambda s: s.replace("|", "\\|")
    caught = ", ".join(sorted(set(c.split(":")[0] for c in m.get("caught_by", []) if c.endswith(":quick")))) or ", ".join(sorted(set(c.replace(":thorough", " (thorough)") for c in m.get("caught_by", []) if c.endswith(":thorough")))) or "—"
    rows.append("| %s%s | %s | %s | %s |" % (sid, " †" if m.get("missed_by_first_version_of_the_monitor") else "", esc(m.get("change", "?")), esc(m.get("needs_to_manifest", "?")), caught))
    w = m.get("wave", 0)
    st = stats.setdefault(w, [0, 0, 0])
    st[0] += 1
    st[1] += 1 if m.get("missed_by_first_version_of_the_monitor") else 0
    st[2] += 1 if caught != "—" else 0
p = os.path.join(V, "DESIGN.md")
s = open(p).read()
hdr = "| id | change | needs, to manifest | caught by (quick) |\n|---|---|---|---|\n"
a = s.index(hdr) + len(hdr)
b = s.index("### 10.6")
s = s[:a] + "\n".join(rows) + "\n\n" + s[b:]
open(p, "w").write(s)
print("rows", len(rows), "per wave [n, missed-first, caught-now]:", stats)
