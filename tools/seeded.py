#!/usr/bin/env python3
"""Seeded-change bookkeeping.

  tools/seeded.py import <PROP> <LETTER> <agent_out_dir> [<scratch worktree>]   copy patch + demo into /verif/seeded/<PROP>-<LETTER>/
  tools/seeded.py verify <ID> <scratch worktree>      confirm: compiles, baseline suite passes with the patch, demo fails with / passes without
  tools/seeded.py detect <ID> [--tier quick] [--checks C01,C02]   apply to /repo, run the checks, undo, record which check caught it

Nothing here is part of a registered check; /repo is always restored with `git checkout -- .` afterwards."""
import json
import os
import re
import shutil
import subprocess
import sys
import time

V = os.path.dirname(os.path.dirname(os.path.abspath(__file__)))
SEEDED = os.path.join(V, "seeded")


def sh(cmd, cwd=None, timeout=3600):
    p = subprocess.run(cmd, cwd=cwd, shell=isinstance(cmd, str), stdout=subprocess.PIPE, stderr=subprocess.STDOUT, text=True, timeout=timeout)
    return p.returncode, p.stdout


def load_meta(d):
    p = os.path.join(d, "meta.json")
    return json.load(open(p)) if os.path.exists(p) else {}


def save_meta(d, m):
    json.dump(m, open(os.path.join(d, "meta.json"), "w"), indent=1)


def cmd_import(prop, letter, src, dst_letter=None):
    d = os.path.join(SEEDED, "%s-%s" % (prop, dst_letter or letter))
    os.makedirs(d, exist_ok=True)
    shutil.copy(os.path.join(src, "change_%s.diff" % letter), os.path.join(d, "patch.diff"))
    shutil.copy(os.path.join(src, "demo_%s.rs" % letter), os.path.join(d, "demo.rs"))
    rep = os.path.join(src, "REPORT.md")
    m = load_meta(d)
    m.update({"id": "%s-%s" % (prop, dst_letter or letter), "breaks_property": prop, "origin": "sub-agent given only the property text and a scratch worktree"})
    if os.path.exists(rep):
        shutil.copy(rep, os.path.join(d, "agent_report.md"))
    save_meta(d, m)
    print("imported", d)


def test_summary(out):
    passed = sum(int(x) for x in re.findall(r"test result: \w+\. (\d+) passed", out))
    failed = sum(int(x) for x in re.findall(r"test result: \w+\. \d+ passed; (\d+) failed", out))
    return passed, failed


def cmd_verify(sid, wt):
    d = os.path.join(SEEDED, sid)
    m = load_meta(d)
    sh("git checkout -- . && git clean -fdq tests", cwd=wt)
    rc, out = sh(["git", "apply", os.path.join(d, "patch.diff")], cwd=wt)
    assert rc == 0, out
    res = {}
    rc, out = sh("cargo test --workspace --no-fail-fast --offline 2>&1", cwd=wt)
    p, f = test_summary(out)
    res["baseline_with_patch"] = {"rc": rc, "passed": p, "failed": f}
    shutil.copy(os.path.join(d, "demo.rs"), os.path.join(wt, "tests", "seeded_demo.rs"))
    rc, out = sh("cargo test --offline --test seeded_demo 2>&1", cwd=wt)
    p, f = test_summary(out)
    res["demo_with_patch"] = {"rc": rc, "passed": p, "failed": f}
    rel = ""
    if res["demo_with_patch"]["rc"] == 0:
        # a change that only shows without debug assertions / overflow checks: repeat the demonstration in the release profile
        rc, out = sh("cargo test --release --offline --test seeded_demo 2>&1", cwd=wt)
        p, f = test_summary(out)
        res["demo_with_patch_release"] = {"rc": rc, "passed": p, "failed": f}
        if rc != 0:
            res["demo_with_patch"] = dict(res["demo_with_patch_release"], profile="release")
            rel = "--release "
    sh("git checkout -- src", cwd=wt)
    rc, out = sh("cargo test %s--offline --test seeded_demo 2>&1" % rel, cwd=wt)
    p, f = test_summary(out)
    res["demo_without_patch"] = {"rc": rc, "passed": p, "failed": f}
    sh("git checkout -- . && git clean -fdq tests", cwd=wt)
    ok = res["baseline_with_patch"]["rc"] == 0 and res["baseline_with_patch"]["failed"] == 0 and res["demo_with_patch"]["rc"] != 0 and res["demo_without_patch"]["rc"] == 0
    res["confirmed"] = ok
    m["verification"] = res
    m["what_i_ran"] = "in a scratch worktree: git apply patch.diff; cargo test --workspace --no-fail-fast --offline (must pass); demo.rs as tests/seeded_demo.rs with the patch (must fail) and without (must pass)"
    save_meta(d, m)
    print(sid, "CONFIRMED" if ok else "NOT CONFIRMED", res)
    return ok


def cmd_detect(sid, tier="quick", checks=None):
    d = os.path.join(SEEDED, sid)
    m = load_meta(d)
    prop = m.get("breaks_property", sid.split("-")[0])
    checks = checks or [prop]
    rc, out = sh(["git", "-C", "/repo", "status", "--porcelain", "--untracked-files=no"])
    assert out.strip() == "", "/repo is not clean: " + out
    rc, out = sh(["git", "-C", "/repo", "apply", os.path.join(d, "patch.diff")])
    assert rc == 0, out
    det = m.setdefault("detection", {})
    try:
        for c in checks:
            t0 = time.time()
            rc, out = sh(["./check", c, "--tier", tier], cwd=V, timeout=7200)
            keys = re.findall(r"VIOLATION property=\S+ replay=\S+\s+key=\[(.*?)\] n=(\d+)", out, flags=re.S)
            det["%s:%s" % (c, tier)] = {"exit": rc, "violation_keys": [k for k, _ in keys][:12], "n_keys": len(keys), "wall_s": round(time.time() - t0, 1), "tail": out.strip().splitlines()[-1][:300] if out.strip() else ""}
            print(sid, c, tier, "exit", rc, "keys", len(keys), [k[:100] for k, _ in keys][:3])
    finally:
        sh(["git", "-C", "/repo", "checkout", "--", "."])
    m["caught_by"] = sorted(k for k, v in det.items() if v["exit"] == 1)
    save_meta(d, m)


if __name__ == "__main__":
    a = sys.argv[1:]
    if a[0] == "import":
        cmd_import(a[1], a[2], a[3], a[4] if len(a) > 4 else None)
    elif a[0] == "verify":
        sys.exit(0 if cmd_verify(a[1], a[2]) else 1)
    elif a[0] == "detect":
        tier = "quick"
        checks = None
        if "--tier" in a:
            tier = a[a.index("--tier") + 1]
        if "--checks" in a:
            checks = a[a.index("--checks") + 1].split(",")
        cmd_detect(a[1], tier, checks)
