#!/usr/bin/env python3
"""Regenerate the tables of DESIGN.md 10.2 (repaired defects, from tools/fixed_table.json) and 10.3 (known findings, from known_findings.json)."""
import json, os, re
V = os.path.dirname(os.path.dirname(os.path.abspath(__file__)))
s = open(os.path.join(V, "DESIGN.md")).read()
esc = lambda x: x.replace("|", "\\|")
t = json.load(open(os.path.join(V, "tools", "fixed_table.json")))
hdr = "| property | fix commit (subject) | what failed (witness class) |\n|---|---|---|\n"
a = s.index(hdr) + len(hdr)
b = s.index("\n\n", a)
s = s[:a] + "\n".join("| %s | %s | %s |" % (x["property"], esc(x["subject"][5:].split("\n")[0]), esc(x["what"])) for x in t) + s[b:]
k = json.load(open(os.path.join(V, "known_findings.json")))["known"]
hdr = "| property | finding key (exact match) | why it is not repaired |\n|---|---|---|\n"
a = s.index(hdr) + len(hdr)
b = s.index("\n\n", a)
oldmap = {}
for r in s[a:b].split("\n"):
    m = re.match(r"\| (\w+) \| `(.*?)` \| (.*) \|$", r)
    if m:
        oldmap[(m.group(1), m.group(2))] = m.group(3)
s = s[:a] + "\n".join("| %s | `%s` | %s |" % (x["property"], x["key"], oldmap.get((x["property"], x["key"])) or esc(x["what"])) for x in k) + s[b:]
open(os.path.join(V, "DESIGN.md"), "w").write(s)
print("fixed", len(t), "known", len(k))
