"""Check framework: sharded case generation -> judge (driver calls + oracle) -> findings / violations / evidence.

A *case* is a JSON-serialisable dict holding literal inputs (never generator state), so a replay file re-executes exactly
the recorded requests and re-evaluates the same oracle. Verdicts are three-valued; exit 0 / 1 / 2."""
import collections
import hashlib
import importlib
import json
import os
import random
import sys
import time
import traceback
from concurrent.futures import ProcessPoolExecutor

from . import driver as drvmod

VERIF = drvmod.VERIF
EVIDENCE_DIR = os.path.join(VERIF, "evidence")
REPLAY_DIR = os.path.join(VERIF, "replays")
KNOWN_FILE = os.path.join(VERIF, "known_findings.json")
NCPU = min(16, os.cpu_count() or 4)

DEFAULT_GUARD_BASE = 64 << 20
DEFAULT_GUARD_PER_CHAR = 1024
MAX_CASES_PER_KEY = 3  # violation cases kept per key per shard
MAX_VIOLATION_LINES = 40


def case_hash(case):
    return hashlib.blake2b(json.dumps(case, sort_keys=True, separators=(",", ":")).encode(), digest_size=8).digest()


class Inconclusive(Exception):
    pass


class Ctx:
    def __init__(self, prop, tier, seed, shard, nshards, build="chk", replay=False):
        self.prop = prop
        self.tier = tier
        self.seed = seed
        self.shard = shard
        self.nshards = nshards
        self.build = build
        self.replay = replay
        self.rnd = random.Random((seed * 1000003 + shard) * 101 + sum(map(ord, prop)))
        self.drivers = {}
        self.hits = collections.Counter()
        self.outcomes = collections.Counter()
        self.evaluations = 0
        self.cases = 0
        self.distinct = set()
        self.samples = []
        self.viol_counts = collections.Counter()
        self.viol_cases = {}  # key -> [ {case, detail} ]
        self.inconclusive = []
        self.info = collections.Counter()  # informational observations (never alarms)
        self.maxes = {}  # name -> largest value observed (e.g. peak bytes per input byte)
        self.cur_case = None
        self.cur_nontrivial = False
        self.exhaustive = []
        self.t0 = time.time()
        self.deadline = None

    # -- driver ---------------------------------------------------------------------------------
    def drv(self, build=None):
        b = build or self.build
        if b not in self.drivers:
            self.drivers[b] = drvmod.Driver(b)
        return self.drivers[b]

    def call(self, req, build=None, watchdog=None):
        r = self.drv(build).call(req, watchdog=watchdog, auto_guard=(DEFAULT_GUARD_BASE, DEFAULT_GUARD_PER_CHAR))
        o = drvmod.outcome(r)
        self.outcomes[o] += 1
        if o == "timeout":
            self.inconclusive.append("watchdog fired on op=%s" % req.get("op"))
            self.harness_limit_in_case = "watchdog"
        elif o == "drv_err":
            self.inconclusive.append("driver error on op=%s: %s" % (req.get("op"), str(r.get("drv_err"))[:300]))
            self.harness_limit_in_case = "driver error"
        elif o == "panic" and "harness/src" in str(r["panic"].get("file", "")) and req.get("op") != "selftest_panic":
            self.inconclusive.append("panic inside the driver itself: %s" % (r["panic"],))
            self.outcomes["drv_panic"] += 1
        return r

    def close(self):
        for d in self.drivers.values():
            d.close()
        self.drivers = {}

    # -- bookkeeping ----------------------------------------------------------------------------
    def hit(self, cls, n=1):
        self.hits[cls] += n

    def ev(self, n=1):
        """count oracle evaluations"""
        self.evaluations += n

    def nontrivial(self):
        self.cur_nontrivial = True

    def note(self, what, n=1):
        self.info[what] += n

    def maxstat(self, name, value):
        if value > self.maxes.get(name, float("-inf")):
            self.maxes[name] = value

    def viol(self, key, detail=None):
        """Oracle false on an observed execution. `key` names the symptom class (no line numbers, no raw inputs)."""
        if getattr(self, "harness_limit_in_case", None):
            # a wall-clock watchdog fired / the driver itself erred while THIS case was being executed: whatever the oracle concludes from
            # the missing answer is not evidence about the library (three-valued verdicts: this is "inconclusive", recorded as such in call())
            self.info["verdict withheld because a harness limit was hit in the same case (%s)" % self.harness_limit_in_case] += 1
            return
        self.viol_counts[key] += 1
        lst = self.viol_cases.setdefault(key, [])
        if len(lst) < MAX_CASES_PER_KEY:
            lst.append({"case": self.cur_case, "detail": detail})

    def begin(self, case):
        self.harness_limit_in_case = None
        self.cur_case = case
        self.cur_nontrivial = False
        self.cases += 1

    def end(self):
        if self.cur_nontrivial:
            self.distinct.add(case_hash(self.cur_case))
            if len(self.samples) < 3:
                self.samples.append(shorten(self.cur_case))
        self.cur_case = None

    def out_of_time(self):
        return self.deadline is not None and time.time() > self.deadline

    def result(self):
        return {
            "shard": self.shard,
            "hits": dict(self.hits),
            "outcomes": dict(self.outcomes),
            "evaluations": self.evaluations,
            "cases": self.cases,
            "distinct": self.distinct,
            "samples": self.samples,
            "viol_counts": dict(self.viol_counts),
            "viol_cases": self.viol_cases,
            "inconclusive": self.inconclusive[:20],
            "n_inconclusive": len(self.inconclusive),
            "info": dict(self.info),
            "maxes": dict(self.maxes),
            "exhaustive": self.exhaustive,
            "deaths": sum(d.deaths for d in self.drivers.values()),
            "wall": time.time() - self.t0,
        }


def shorten(x, lim=400):
    """Keep samples readable: long hex strings are abbreviated (full inputs live in replay files)."""
    if isinstance(x, str):
        return x if len(x) <= lim else x[:lim // 2] + "...(%d chars)..." % len(x) + x[-40:]
    if isinstance(x, list):
        return [shorten(v, lim) for v in x[:12]] + (["...(%d items)" % len(x)] if len(x) > 12 else [])
    if isinstance(x, dict):
        return {k: shorten(v, lim) for k, v in x.items()}
    return x


def _worker(args):
    modname, tier, seed, shard, nshards, budget_s = args[:6]
    build_override = args[6] if len(args) > 6 else None
    mod = importlib.import_module(modname)
    ctx = Ctx(mod.ID, tier, seed, shard, nshards, build=build_override or getattr(mod, "BUILD", "chk"))
    ctx.deadline = time.time() + budget_s
    try:
        for case in mod.cases(ctx):
            ctx.begin(case)
            mod.judge(ctx, case)
            ctx.end()
            if ctx.out_of_time():
                ctx.note("shard_budget_exhausted")
                break
    except Inconclusive as e:
        ctx.inconclusive.append(str(e))
    except Exception:
        ctx.inconclusive.append("harness exception: " + traceback.format_exc()[-1500:])
    finally:
        ctx.close()
    return ctx.result()


def run_build_stage(modname, tier, seed, build, shards, nshards, budget_s):
    """Re-run part of a module's workload (the given shard numbers of an nshards-way split, fresh seed) against another driver build.
    Violation keys carry the build name, so a symptom that exists only in that build is distinguishable."""
    drvmod.build(build)
    jobs = [(modname, tier, seed, s, nshards, budget_s, build) for s in shards]
    with ProcessPoolExecutor(max_workers=NCPU) as ex:
        out = list(ex.map(_worker, jobs))
    for o in out:
        o["hits"] = {"%s:%s" % (build, k): v for k, v in o["hits"].items()}
        o["samples"] = []
    return out


def load_known():
    try:
        with open(KNOWN_FILE) as f:
            k = json.load(f)
    except FileNotFoundError:
        k = {"known": [], "fixed": []}
    return k


def merge(results):
    m = {
        "hits": collections.Counter(),
        "outcomes": collections.Counter(),
        "info": collections.Counter(),
        "evaluations": 0,
        "cases": 0,
        "distinct": set(),
        "samples": [],
        "viol_counts": collections.Counter(),
        "viol_cases": {},
        "inconclusive": [],
        "n_inconclusive": 0,
        "exhaustive": [],
        "deaths": 0,
        "maxes": {},
    }
    for r in results:
        for k_, v_ in r.get("maxes", {}).items():
            if v_ > m["maxes"].get(k_, float("-inf")):
                m["maxes"][k_] = v_
        m["hits"].update(r["hits"])
        m["outcomes"].update(r["outcomes"])
        m["info"].update(r["info"])
        m["evaluations"] += r["evaluations"]
        m["cases"] += r["cases"]
        m["distinct"] |= r["distinct"]
        if len(m["samples"]) < 5:
            m["samples"].extend(r["samples"][: 5 - len(m["samples"])])
        m["viol_counts"].update(r["viol_counts"])
        for k, v in r["viol_cases"].items():
            lst = m["viol_cases"].setdefault(k, [])
            if len(lst) < MAX_CASES_PER_KEY:
                lst.extend(v[: MAX_CASES_PER_KEY - len(lst)])
        m["inconclusive"].extend(r["inconclusive"])
        m["n_inconclusive"] += r["n_inconclusive"]
        for e in r["exhaustive"]:
            if e not in m["exhaustive"]:
                m["exhaustive"].append(e)
        m["deaths"] += r["deaths"]
    return m


def run(modname, tier, seed, replay_path=None):
    t0 = time.time()
    mod = importlib.import_module(modname)
    pid = mod.ID
    os.makedirs(EVIDENCE_DIR, exist_ok=True)
    os.makedirs(REPLAY_DIR, exist_ok=True)
    inconclusive = []

    # 1. build the driver(s) from /repo's current working tree
    builds = ["chk"] + list(getattr(mod, "EXTRA_BUILDS", {}).get(tier, []))
    for b in builds:
        if b in drvmod.BUILDS:
            try:
                drvmod.build(b)
            except drvmod.BuildError as e:
                print("INCONCLUSIVE property=%s driver build failed (%s)" % (pid, b))
                print(str(e)[-3000:], file=sys.stderr)
                write_evidence(mod, tier, seed, None, time.time() - t0, 0, ["driver build %s failed" % b], [])
                return 2

    # 2. reference self-tests (a wrong reference must never become a violation)
    try:
        st = getattr(mod, "selftest", None)
        if st:
            st()
    except Exception as e:
        print("INCONCLUSIVE property=%s reference self-test failed: %s" % (pid, e))
        traceback.print_exc()
        write_evidence(mod, tier, seed, None, time.time() - t0, 0, ["reference self-test failed: %s" % e], [])
        return 2

    known = load_known()
    known_keys = {k["key"]: k for k in known.get("known", []) if k.get("property") == pid}

    if replay_path:
        with open(replay_path) as f:
            rec = json.load(f)
        ctx = Ctx(pid, tier, seed, 0, 1, build=getattr(mod, "BUILD", "chk"), replay=True)
        try:
            ctx.begin(rec["case"])
            mod.judge(ctx, rec["case"])
            ctx.end()
        finally:
            ctx.close()
        res = merge([ctx.result()])
    else:
        nshards = getattr(mod, "NSHARDS", {}).get(tier, 32)
        budget = getattr(mod, "BUDGET_S", {}).get(tier, 240 if tier == "quick" else 3600)
        jobs = [(modname, tier, seed, s, nshards, budget) for s in range(nshards)]
        with ProcessPoolExecutor(max_workers=NCPU) as ex:
            results = list(ex.map(_worker, jobs))
        res = merge(results)
        # generic release-build stage (thorough): part of the same workload, fresh seed, against the optimised build without
        # debug assertions / overflow checks -- the build users ship. Modules that run their own release stage opt out.
        if getattr(mod, "GENERIC_REL", True) or tier == "quick":
            try:
                # thorough: every 4th shard; quick: every 8th shard (a slice of the same workload is enough to see a symptom that
                # exists only without debug assertions / overflow checks)
                rel_sh = list(range(0, nshards, 4 if tier == "thorough" else 8))
                er = run_build_stage(modname, tier, seed + 7919, "rel", rel_sh, nshards, max(300, budget // 3) if tier == "thorough" else max(60, budget // 2))
                res = _merge_extra(res, er)
            except Exception:
                res["inconclusive"].append("release-build stage exception: " + traceback.format_exc()[-1500:])
                res["n_inconclusive"] += 1
        # optional extra stages (other builds, sanitizer replays...) implemented by the module
        extra = getattr(mod, "extra_stages", None)
        if extra:
            try:
                er = extra(tier, seed, res)
                if er:
                    res = _merge_extra(res, er)
            except Exception:
                res["inconclusive"].append("extra stage exception: " + traceback.format_exc()[-1500:])
                res["n_inconclusive"] += 1

    # 3. coverage thresholds: a run that observed (almost) nothing is not a pass
    if not replay_path:
        for cls, need in getattr(mod, "MIN_HITS", {}).get(tier, {}).items():
            if res["hits"].get(cls, 0) < need:
                inconclusive.append("coverage: class %s hit %d < %d" % (cls, res["hits"].get(cls, 0), need))
    inconclusive.extend(res["inconclusive"][:10])

    # 4. classify
    unlisted = []
    listed = []
    for key, n in sorted(res["viol_counts"].items()):
        if key in known_keys:
            listed.append((key, n))
        else:
            unlisted.append((key, n))
    lines = 0
    replay_files = []
    for key, n in listed:
        print("KNOWN-FINDING: property=%s %s (observed %d times)" % (pid, key, n))
    for key, n in unlisted:
        cases = res["viol_cases"].get(key, [])
        c = cases[0] if cases else {"case": None, "detail": None}
        fn = os.path.join(REPLAY_DIR, "%s_%s.json" % (pid, hashlib.sha1(key.encode()).hexdigest()[:12]))
        if replay_path:
            fn = replay_path
        else:
            with open(fn, "w") as f:
                json.dump({"property": pid, "key": key, "count": n, "seed": seed, "tier": tier, "case": c["case"], "detail": c["detail"], "more_cases": cases[1:]}, f, indent=1)
        replay_files.append(fn)
        if lines < MAX_VIOLATION_LINES:
            print("VIOLATION property=%s replay=%s  key=[%s] n=%d" % (pid, fn, key, n))
            lines += 1
    if len(unlisted) > MAX_VIOLATION_LINES:
        print("... %d further violation keys (see replay dir / evidence)" % (len(unlisted) - MAX_VIOLATION_LINES))

    wall = time.time() - t0
    write_evidence(mod, tier, seed, res, wall, len(unlisted), inconclusive, listed, unlisted)
    if unlisted:
        print("RESULT property=%s tier=%s VIOLATED keys=%d cases=%d evaluations=%d wall=%.1fs" % (pid, tier, len(unlisted), res["cases"], res["evaluations"], wall))
        return 1
    if inconclusive:
        for i in inconclusive[:10]:
            print("INCONCLUSIVE property=%s %s" % (pid, i))
        return 2
    print(
        "RESULT property=%s tier=%s HELD on cases=%d evaluations=%d distinct_nontrivial=%d known_findings=%d wall=%.1fs"
        % (pid, tier, res["cases"], res["evaluations"], len(res["distinct"]), len(listed), wall)
    )
    return 0


def _merge_extra(res, extra_results):
    m = merge(extra_results)
    res["hits"].update(m["hits"])
    res["outcomes"].update(m["outcomes"])
    res["info"].update(m["info"])
    res["evaluations"] += m["evaluations"]
    res["cases"] += m["cases"]
    res["distinct"] |= m["distinct"]
    res["viol_counts"].update(m["viol_counts"])
    for k, v in m["viol_cases"].items():
        res["viol_cases"].setdefault(k, []).extend(v)
    res["inconclusive"].extend(m["inconclusive"])
    res["n_inconclusive"] += m["n_inconclusive"]
    res["exhaustive"].extend(e for e in m["exhaustive"] if e not in res["exhaustive"])
    res["deaths"] += m["deaths"]
    for k_, v_ in m["maxes"].items():
        if v_ > res["maxes"].get(k_, float("-inf")):
            res["maxes"][k_] = v_
    return res


def write_evidence(mod, tier, seed, res, wall, n_unlisted, inconclusive, listed, unlisted=()):
    pid = mod.ID
    if res is None:
        cov = {"evaluations": 0, "distinct_nontrivial": 0, "rule": getattr(mod, "RULE", ""), "samples": [], "inconclusive": inconclusive}
    else:
        cov = {
            "evaluations": int(res["evaluations"]),
            "cases": int(res["cases"]),
            "distinct_nontrivial": len(res["distinct"]),
            "rule": getattr(mod, "RULE", ""),
            "samples": res["samples"][:5],
            "class_hits": dict(sorted(res["hits"].items())),
            "outcomes": dict(res["outcomes"]),
            "informational": dict(res["info"]),
            "max_observed": {k_: round(v_, 3) for k_, v_ in sorted(res.get("maxes", {}).items())},
            "exhaustive_subspaces": res["exhaustive"],
            "exhaustive": False,
            "process_deaths_observed": res["deaths"],
            "known_findings_seen": [{"key": k, "n": n} for k, n in listed],
            "unlisted_violation_keys": [{"key": k, "n": n} for k, n in list(unlisted)[:100]],
            "inconclusive": inconclusive[:20],
            "builds": sorted(set(["chk"] + list(getattr(mod, "EXTRA_BUILDS", {}).get(tier, [])) + ["rel"])),
        }
    ev = {
        "property_id": pid,
        "tier": tier if tier in ("quick", "thorough") else "quick",
        "seed": int(seed),
        "level": "exploration",
        "coverage": cov,
        "assumptions": getattr(mod, "ASSUMPTIONS", []),
        "wall_s": round(wall, 2),
        "violations": int(n_unlisted),
    }
    with open(os.path.join(EVIDENCE_DIR, "%s.json" % pid), "w") as f:
        json.dump(ev, f, indent=1)


def main(argv):
    import argparse

    ap = argparse.ArgumentParser()
    ap.add_argument("prop")
    ap.add_argument("--tier", default=os.environ.get("VERIF_TIER", "quick"))
    ap.add_argument("--replay", default=None)
    ap.add_argument("--seed", type=int, default=int(os.environ.get("VERIF_SEED", "1")))
    a = ap.parse_args(argv)
    tier = a.tier if a.tier in ("quick", "thorough") else "quick"
    code = run("vf.checks.%s" % a.prop, tier, a.seed, a.replay)
    sys.stdout.flush()
    return code
