"""libFuzzer (cargo-fuzz, ASan-instrumented) as an INPUT FINDER only: coverage-guided search produces artifacts (crash / oom / timeout)
and a coverage-diverse corpus; both are handed back to the monitors, which re-judge every input through bsvdrv with the normal oracle.
No verdict is ever taken from the fuzzer itself; if the build or the run fails the stage is reported as skipped."""
import glob
import os
import shutil
import subprocess
import time

from . import driver as drvmod

FUZZ_DIR = os.path.join(drvmod.HARNESS, "fuzz")
WORK = os.path.join(drvmod.VERIF, "work", "fuzz")


def build():
    env = dict(os.environ)
    env["CARGO_NET_OFFLINE"] = "true"
    p = subprocess.run(["cargo", "+nightly", "fuzz", "build"], cwd=FUZZ_DIR, env=env, stdout=subprocess.PIPE, stderr=subprocess.STDOUT, text=True, timeout=1800)
    if p.returncode != 0:
        raise RuntimeError("cargo fuzz build failed: " + p.stdout[-1500:])


def run(target, seconds, seeds=(), max_len=1024, forks=16, max_corpus=4000):
    """-> dict(artifacts=[(kind, bytes)], corpus=[bytes], stats=str)"""
    build()
    wd = os.path.join(WORK, target)
    shutil.rmtree(wd, ignore_errors=True)
    cdir, adir = os.path.join(wd, "corpus"), os.path.join(wd, "artifacts")
    os.makedirs(cdir)
    os.makedirs(adir)
    for i, s in enumerate(seeds):
        with open(os.path.join(cdir, "seed%05d" % i), "wb") as f:
            f.write(s)
    env = dict(os.environ)
    env["CARGO_NET_OFFLINE"] = "true"
    t0 = time.time()
    cmd = ["cargo", "+nightly", "fuzz", "run", target, cdir, "--", "-max_total_time=%d" % seconds, "-timeout=10", "-max_len=%d" % max_len, "-fork=%d" % forks,
           "-ignore_crashes=1", "-ignore_ooms=1", "-ignore_timeouts=1", "-malloc_limit_mb=256", "-rss_limit_mb=2048", "-artifact_prefix=%s/" % adir, "-print_final_stats=1"]
    try:
        p = subprocess.run(cmd, cwd=FUZZ_DIR, env=env, stdout=subprocess.DEVNULL, stderr=subprocess.PIPE, text=True, timeout=seconds + 600)
        tail = p.stderr[-600:]
    except subprocess.TimeoutExpired:
        tail = "outer timeout"
    arts = []
    for fn in sorted(glob.glob(os.path.join(adir, "*"))):
        kind = os.path.basename(fn).split("-")[0]
        with open(fn, "rb") as f:
            arts.append((kind, f.read()))
    corpus = []
    files = sorted(glob.glob(os.path.join(cdir, "*")), key=os.path.getsize)
    step = max(1, len(files) // max_corpus)
    for fn in files[::step][:max_corpus]:
        with open(fn, "rb") as f:
            corpus.append(f.read())
    stats = [l for l in tail.splitlines() if "cov:" in l or "stat::" in l][-3:]
    shutil.rmtree(wd, ignore_errors=True)
    return {"artifacts": arts, "corpus": corpus, "stats": "; ".join(stats)[:400], "wall_s": round(time.time() - t0, 1), "n_corpus_files": len(files)}
