"""Run a request corpus through the driver under Miri (cargo +nightly miri run, file in / file out), sharded over processes."""
import json
import os
import subprocess
import tempfile
import time
from concurrent.futures import ThreadPoolExecutor

from . import driver as drvmod

WORK = os.path.join(drvmod.VERIF, "work", "miri")


def run(requests, nproc=16, timeout_s=1500):
    """-> list aligned with `requests`: response dict, {"miri_ub": text} for the request in flight when Miri reported an error,
    or None when the process stopped before reaching it. Second value: diagnostics."""
    os.makedirs(WORK, exist_ok=True)
    env = dict(os.environ)
    env["CARGO_NET_OFFLINE"] = "true"
    env["MIRIFLAGS"] = "-Zmiri-disable-isolation"
    env["RUSTFLAGS"] = "--cfg bsv_verif"
    # build once (serialises the expensive part)
    t0 = time.time()
    warm_in = os.path.join(WORK, "warm.in")
    with open(warm_in, "w") as f:
        f.write(json.dumps({"id": 1, "op": "ping"}) + "\n")
    p = subprocess.run(["cargo", "+nightly", "miri", "run", "--", "--in", warm_in, "--out", os.path.join(WORK, "warm.out")], cwd=drvmod.HARNESS, env=env, stdout=subprocess.PIPE, stderr=subprocess.PIPE, text=True, timeout=timeout_s)
    diag = {"build_s": round(time.time() - t0, 1), "build_rc": p.returncode}
    if p.returncode != 0:
        diag["error"] = p.stderr[-2000:]
        return None, diag
    chunks = [list(range(i, len(requests), nproc)) for i in range(nproc)]
    results = [None] * len(requests)

    def one(ci):
        idxs = chunks[ci]
        if not idxs:
            return
        fin = os.path.join(WORK, "c%d.in" % ci)
        fout = os.path.join(WORK, "c%d.out" % ci)
        with open(fin, "w") as f:
            for j, i in enumerate(idxs):
                r = dict(requests[i])
                r["id"] = j + 1
                f.write(json.dumps(r, separators=(",", ":")) + "\n")
        if os.path.exists(fout):
            os.remove(fout)
        try:
            pr = subprocess.run(["cargo", "+nightly", "miri", "run", "--", "--in", fin, "--out", fout], cwd=drvmod.HARNESS, env=env, stdout=subprocess.PIPE, stderr=subprocess.PIPE, text=True, timeout=timeout_s)
            rc, err = pr.returncode, pr.stderr
        except subprocess.TimeoutExpired:
            rc, err = "timeout", ""
        got = {}
        if os.path.exists(fout):
            for line in open(fout):
                try:
                    d = json.loads(line)
                    got[d.get("id")] = d
                except Exception:
                    pass
        n_done = 0
        for j, i in enumerate(idxs):
            if (j + 1) in got:
                results[i] = got[j + 1]
                n_done += 1
        if rc != 0 and n_done < len(idxs):
            # the first request without a response was in flight
            j = min(j for j in range(len(idxs)) if (j + 1) not in got)
            ub = [l for l in err.splitlines() if l.startswith("error")]
            if rc == "timeout":
                results[idxs[j]] = {"timeout": True}
            elif ub:
                results[idxs[j]] = {"miri_ub": " | ".join(ub[:3])[:600], "stderr": err[-3000:]}
            else:
                results[idxs[j]] = {"death": {"code": rc, "stderr": err[-1500:]}}

    with ThreadPoolExecutor(max_workers=nproc) as ex:
        list(ex.map(one, range(nproc)))
    diag["wall_s"] = round(time.time() - t0, 1)
    diag["answered"] = sum(1 for r in results if r is not None)
    return results, diag
