"""Structured (field-level) mutation of JSON documents, plus a minimal CBOR encoder so that the same mutated document can be
fed to the CBOR decoders. Used by C09: "valid encodings with any declared length / count / field replaced by extreme values"."""
import copy
import json
import struct

NUMS = [0, 1, 2, 0xFFFF, 0xFFFFFFFE, 0xFFFFFFFF, 0x100000000, 2**53 + 1, 2**63 - 1, 2**63, 2**64 - 1, 2**64, -1, -(2**63), 1.5, 1e30]
STRS = ["", "0", "00", "zz", "OP_IF", "OP_ENDIF", "OP_0", "ff" * 31, "00" * 31, "00" * 33, "0" * 63]


def cbor(x):
    """minimal CBOR encoder: ints (incl. > 64 bit as bignum tags), floats, str, bytes, list, dict, bool, None"""
    if x is None:
        return b"\xf6"
    if x is True:
        return b"\xf5"
    if x is False:
        return b"\xf4"
    if isinstance(x, int):
        if 0 <= x < 2**64:
            return _head(0, x)
        if -(2**64) <= x < 0:
            return _head(1, -1 - x)
        mag = x if x >= 0 else -1 - x
        b = mag.to_bytes((mag.bit_length() + 7) // 8, "big")
        return (b"\xc2" if x >= 0 else b"\xc3") + _head(2, len(b)) + b
    if isinstance(x, float):
        return b"\xfb" + struct.pack(">d", x)
    if isinstance(x, str):
        b = x.encode("utf8", "surrogatepass")
        return _head(3, len(b)) + b
    if isinstance(x, (bytes, bytearray)):
        return _head(2, len(x)) + bytes(x)
    if isinstance(x, (list, tuple)):
        return _head(4, len(x)) + b"".join(cbor(v) for v in x)
    if isinstance(x, dict):
        return _head(5, len(x)) + b"".join(cbor(k) + cbor(v) for k, v in x.items())
    raise TypeError(type(x))


def _head(major, n):
    m = major << 5
    if n < 24:
        return bytes([m | n])
    if n < 1 << 8:
        return bytes([m | 24, n])
    if n < 1 << 16:
        return bytes([m | 25]) + struct.pack(">H", n)
    if n < 1 << 32:
        return bytes([m | 26]) + struct.pack(">I", n)
    return bytes([m | 27]) + struct.pack(">Q", n)


def paths(doc, prefix=()):
    """every path to a node of the document"""
    yield prefix
    if isinstance(doc, dict):
        for k, v in doc.items():
            yield from paths(v, prefix + (k,))
    elif isinstance(doc, list):
        for i, v in enumerate(doc):
            yield from paths(v, prefix + (i,))


def get(doc, path):
    for p in path:
        doc = doc[p]
    return doc


def put(doc, path, val):
    if not path:
        return val
    d = copy.deepcopy(doc)
    cur = d
    for p in path[:-1]:
        cur = cur[p]
    cur[path[-1]] = val
    return d


def drop(doc, path):
    d = copy.deepcopy(doc)
    cur = d
    for p in path[:-1]:
        cur = cur[p]
    del cur[path[-1]]
    return d


def variants_at(doc, path, r):
    """mutated copies of `doc` that differ at `path` only"""
    v = get(doc, path)
    out = []
    if isinstance(v, bool) or v is None:
        cands = [0, "x", [], {}]
    elif isinstance(v, (int, float)):
        cands = list(NUMS) + [str(v), [v], None]
    elif isinstance(v, str):
        cands = list(STRS) + [v[: len(v) // 2], v[:-1], v[:-2], v + v, v + "00", v.upper(), 7, None, [v], {"a": v}]
        if len(v) >= 4:
            cands += [v[: r.randrange(0, max(1, len(v) // 2)) * 2], v[2:]]
    elif isinstance(v, list):
        cands = [[], v + v, v[:1], v[::-1], None, "x", {}, v * 50] + ([v[:-1]] if v else [])
    else:
        cands = [{}, [], None, "x", 3]
    for c in cands:
        out.append(put(doc, path, c))
    if path:
        out.append(drop(doc, path))
    return out


def pair_variants(doc, r, n=40):
    """two fields mutated at once (defects that need a combination of two extreme fields)"""
    ps = [p for p in paths(doc) if p and not isinstance(get(doc, p), (dict, list))]
    out = []
    for _ in range(n):
        if len(ps) < 2:
            break
        a, b = r.sample(ps, 2)
        try:
            d1 = r.choice(variants_at(doc, a, r))
            get(d1, b)
            out.append(r.choice(variants_at(d1, b, r)))
        except (KeyError, IndexError, TypeError, ValueError):
            continue  # the first mutation removed or reshaped the second path
    return out


def all_variants(text, r, max_paths=400):
    doc = json.loads(text)
    ps = list(paths(doc))
    if len(ps) > max_paths:
        ps = r.sample(ps, max_paths)
    for p in ps:
        for d in variants_at(doc, p, r):
            yield d
    for d in pair_variants(doc, r):
        yield d
