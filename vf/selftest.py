"""Reference-model self-tests against published vectors + a supervisor smoke test. Run by MANIFEST.setup_cmd."""
import sys


def main():
    from .ref import ec, sighash

    ec.selftest()
    sighash.selftest()
    for name in ("hashes", "aes", "base58", "bip32", "interp"):
        try:
            mod = __import__("vf.ref." + name, fromlist=["selftest"])
        except ImportError:
            continue
        mod.selftest()
    from . import driver

    d = driver.Driver("chk")
    assert d.call({"op": "ping"}).get("ok") == "pong"
    assert "panic" in d.call({"op": "selftest_panic"})
    assert "alloc_guard" in d.call({"op": "selftest_alloc", "n": 50_000_000, "guard": 1_000_000})
    assert d.call({"op": "ping"}).get("ok") == "pong"
    assert "death" in d.call({"op": "selftest_abort"})
    assert d.call({"op": "ping"}).get("ok") == "pong"
    d.close()
    print("vf selftest ok")


if __name__ == "__main__":
    main()
    sys.exit(0)
