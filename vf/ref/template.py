"""Reference script-template matcher and match-criteria selector (conditional-free scripts)."""
from . import asm, ec, wire

FLAGS = {0x40, 0x01, 0x02, 0x03, 0x80, 0x41, 0x42, 0x43, 0xC1, 0xC2, 0xC3, 0x81, 0x82, 0x83}
OPS = [(">=", lambda a, b: a >= b), ("<=", lambda a, b: a <= b), ("=", lambda a, b: a == b), (">", lambda a, b: a > b), ("<", lambda a, b: a < b)]


def parse_template(text):
    """-> list of template tokens, or None when a token is not understood"""
    out = []
    for w in text.split(" "):
        if w == "OP_SIG":
            out.append(("sig",))
        elif w == "OP_PUBKEY":
            out.append(("pubkey",))
        elif w == "OP_PUBKEYHASH":
            out.append(("pkh",))
        elif w == "OP_DATA":
            out.append(("any",))
        elif w.startswith("OP_DATA") and any(w[7:].startswith(s) for s, _ in OPS):
            rest = w[7:]
            for sym, fn in OPS:
                if rest.startswith(sym):
                    num = rest[len(sym) :]
                    if not num.isdigit():
                        return None
                    out.append(("len", sym, int(num)))
                    break
        else:
            t = asm.parse_token(w)
            if t is None:
                return None
            out.append(("exact", t))
    return out


def is_sig(d):
    return ec.der_parse_strict(d) is not None or (len(d) >= 1 and d[-1] in FLAGS and ec.der_parse_strict(d[:-1]) is not None)


def match(toks, tmpl):
    """-> list of (kind, data) extractions, or None if no match. toks: flat reference tokens without conditionals."""
    if len(toks) != len(tmpl):
        return None
    ext = []
    for t, m in zip(toks, tmpl):
        is_push = t[0] in ("push", "pd")
        data = t[-1] if is_push else None
        if m[0] == "exact":
            if t != m[1]:
                return None
        elif m[0] == "len":
            fn = dict(OPS)[m[1]]
            if not is_push or not fn(len(data), m[2]):
                return None
            ext.append(("Data", data))
        elif m[0] == "any":
            if not is_push:
                return None
            ext.append(("Data", data))
        elif m[0] == "sig":
            if not is_push or not is_sig(data):
                return None
            ext.append(("Signature", data))
        elif m[0] == "pubkey":
            if not is_push or ec.parse_pub(data) is None:
                return None
            ext.append(("PublicKey", data))
        elif m[0] == "pkh":
            if not is_push or len(data) != 20:
                return None
            ext.append(("PublicKeyHash", data))
    return ext


def value_ok(v, exact, mn, mx):
    if exact is not None and v != exact:
        return False
    if mn is not None and v < mn:
        return False
    if mx is not None and v > mx:
        return False
    return True
