"""Reference interpreter for the non-signature part of Bitcoin SV script (post-Genesis consensus rules, no policy flags).
Works on flat reference tokens; produces a per-step trace so that a divergence can be attributed to the opcode that caused it.
Semantics table: DESIGN.md appendix A (source: Bitcoin SV node interpreter.cpp)."""
from . import hashes, wire

T = b"\x01"
F = b""


class ScriptFail(Exception):
    pass


class OutOfScope(Exception):
    """the program leaves the part of the semantics the reference claims (size limits are era/policy dependent)"""


MAX_ELEM = 1024  # operands / results larger than this are outside the claimed semantics
MAX_NUM2BIN = 2000
MAX_SHIFT = 1 << 20


def num(v):
    if not v:
        return 0
    n = int.from_bytes(v, "little")
    top = 1 << (8 * len(v) - 1)
    if n & top:
        return -(n & (top - 1))
    return n


def enc(i):
    if i == 0:
        return b""
    a = abs(i)
    b = bytearray(a.to_bytes((a.bit_length() + 7) // 8, "little"))
    if b[-1] & 0x80:
        b.append(0x80 if i < 0 else 0)
    elif i < 0:
        b[-1] |= 0x80
    return bytes(b)


def truth(v):
    for i, c in enumerate(v):
        if c != 0:
            if i == len(v) - 1 and c == 0x80:
                return False
            return True
    return False


def lshift(x, n):
    if not x:
        return b""
    bits = 8 * len(x)
    v = int.from_bytes(x, "big")
    return ((v << n) & ((1 << bits) - 1)).to_bytes(len(x), "big") if n < bits else b"\x00" * len(x)


def rshift(x, n):
    if not x:
        return b""
    v = int.from_bytes(x, "big")
    return (v >> n).to_bytes(len(x), "big") if n < 8 * len(x) else b"\x00" * len(x)


def tdiv(a, b):
    q = abs(a) // abs(b)
    return -q if (a < 0) != (b < 0) else q


def tmod(a, b):
    return a - b * tdiv(a, b)


NOPS = {97, 176, 179, 180, 181, 182, 183, 184, 185, 171}
UNARY_NUM = {139: lambda a: a + 1, 140: lambda a: a - 1, 143: lambda a: -a, 144: abs}
BIN_NUM = {147: lambda a, b: a + b, 148: lambda a, b: a - b, 149: lambda a, b: a * b, 163: min, 164: max}
BIN_BOOL = {
    154: lambda a, b: a != 0 and b != 0,
    155: lambda a, b: a != 0 or b != 0,
    156: lambda a, b: a == b,
    158: lambda a, b: a != b,
    159: lambda a, b: a < b,
    160: lambda a, b: a > b,
    161: lambda a, b: a <= b,
    162: lambda a, b: a >= b,
}
HASHES = {166: hashes.ripemd160, 167: hashes.sha1, 168: hashes.sha256, 169: hashes.hash160, 170: hashes.sha256d}
# every opcode this reference implements (the C14 alphabet)
IMPLEMENTED = (
    {0, 79} | set(range(81, 97)) | NOPS | {99, 100, 103, 104, 105, 106, 107, 108, 109, 110, 111, 112, 113, 114, 115, 116, 117, 118, 119, 120, 121, 122, 123, 124, 125}
    | {126, 127, 128, 129, 130, 131, 132, 133, 134, 135, 136} | set(UNARY_NUM) | {145, 146} | set(BIN_NUM) | {150, 151, 152, 153} | set(BIN_BOOL) | {157, 165} | set(HASHES)
)


def need(st, k):
    if len(st) < k:
        raise ScriptFail("stack has %d items, need %d" % (len(st), k))


def exec_op(c, st, alt):
    """execute one non-flow opcode on (st, alt) in place; raises ScriptFail"""
    if c == 0:
        st.append(b"")
    elif c == 79:
        st.append(b"\x81")
    elif 81 <= c <= 96:
        st.append(bytes([c - 80]))
    elif c in NOPS:
        pass
    elif c == 105:  # VERIFY
        need(st, 1)
        if not truth(st[-1]):
            raise ScriptFail("verify")
        st.pop()
    elif c == 107:
        need(st, 1)
        alt.append(st.pop())
    elif c == 108:
        need(alt, 1)
        st.append(alt.pop())
    elif c == 109:
        need(st, 2)
        del st[-2:]
    elif c == 110:
        need(st, 2)
        st.extend(st[-2:])
    elif c == 111:
        need(st, 3)
        st.extend(st[-3:])
    elif c == 112:
        need(st, 4)
        st.extend(st[-4:-2])
    elif c == 113:
        need(st, 6)
        a = st[-6:-4]
        del st[-6:-4]
        st.extend(a)
    elif c == 114:
        need(st, 4)
        a = st[-4:-2]
        del st[-4:-2]
        st.extend(a)
    elif c == 115:
        need(st, 1)
        if truth(st[-1]):
            st.append(st[-1])
    elif c == 116:
        st.append(enc(len(st)))
    elif c == 117:
        need(st, 1)
        st.pop()
    elif c == 118:
        need(st, 1)
        st.append(st[-1])
    elif c == 119:
        need(st, 2)
        del st[-2]
    elif c == 120:
        need(st, 2)
        st.append(st[-2])
    elif c in (121, 122):
        need(st, 2)
        n = num(st[-1])
        if n < 0 or n >= len(st) - 1:
            raise ScriptFail("pick/roll index")
        st.pop()
        v = st[-1 - n]
        if c == 122:
            del st[-1 - n]
        st.append(v)
    elif c == 123:
        need(st, 3)
        st.append(st.pop(-3))
    elif c == 124:
        need(st, 2)
        st[-1], st[-2] = st[-2], st[-1]
    elif c == 125:
        need(st, 2)
        st.insert(-2, st[-1])
    elif c == 126:
        need(st, 2)
        b = st.pop()
        a = st.pop()
        st.append(a + b)
    elif c == 127:
        need(st, 2)
        n = num(st[-1])
        x = st[-2]
        if n < 0 or n > len(x):
            raise ScriptFail("split range")
        del st[-2:]
        st.append(x[:n])
        st.append(x[n:])
    elif c == 128:  # NUM2BIN
        need(st, 2)
        size = num(st[-1])
        if size > MAX_NUM2BIN:
            raise OutOfScope("num2bin size")
        if size < 0:
            raise ScriptFail("num2bin size")
        m = bytearray(enc(num(st[-2])))
        if len(m) > size:
            raise ScriptFail("num2bin too small")
        del st[-2:]
        if len(m) < size:
            sign = 0
            if m:
                sign = m[-1] & 0x80
                m[-1] &= 0x7F
            m += b"\x00" * (size - len(m) - 1)
            m.append(sign)
        st.append(bytes(m))
    elif c == 129:
        need(st, 1)
        st.append(enc(num(st.pop())))
    elif c == 130:
        need(st, 1)
        st.append(enc(len(st[-1])))
    elif c == 131:
        need(st, 1)
        st.append(bytes(b ^ 0xFF for b in st.pop()))
    elif c in (132, 133, 134):
        need(st, 2)
        if len(st[-1]) != len(st[-2]):
            raise ScriptFail("operand size")
        b = st.pop()
        a = st.pop()
        f = {132: lambda x, y: x & y, 133: lambda x, y: x | y, 134: lambda x, y: x ^ y}[c]
        st.append(bytes(f(x, y) for x, y in zip(a, b)))
    elif c in (135, 136):
        need(st, 2)
        b = st.pop()
        a = st.pop()
        if c == 135:
            st.append(T if a == b else F)
        elif a != b:
            raise ScriptFail("equalverify")
    elif c in UNARY_NUM:
        need(st, 1)
        st.append(enc(UNARY_NUM[c](num(st.pop()))))
    elif c == 145:
        need(st, 1)
        st.append(T if num(st.pop()) == 0 else F)
    elif c == 146:
        need(st, 1)
        st.append(T if num(st.pop()) != 0 else F)
    elif c in BIN_NUM:
        need(st, 2)
        b = num(st.pop())
        a = num(st.pop())
        st.append(enc(BIN_NUM[c](a, b)))
    elif c in (150, 151):
        need(st, 2)
        b = num(st[-1])
        a = num(st[-2])
        if b == 0:
            raise ScriptFail("division by zero")
        del st[-2:]
        st.append(enc(tdiv(a, b) if c == 150 else tmod(a, b)))
    elif c in (152, 153):
        need(st, 2)
        n = num(st[-1])
        if n > MAX_SHIFT:
            raise OutOfScope("shift count")
        if n < 0:
            raise ScriptFail("negative shift")
        x = st[-2]
        del st[-2:]
        st.append(lshift(x, n) if c == 152 else rshift(x, n))
    elif c in BIN_BOOL:
        need(st, 2)
        b = num(st.pop())
        a = num(st.pop())
        st.append(T if BIN_BOOL[c](a, b) else F)
    elif c == 157:
        need(st, 2)
        b = num(st.pop())
        a = num(st.pop())
        if a != b:
            raise ScriptFail("numequalverify")
    elif c == 165:
        need(st, 3)
        mx = num(st.pop())
        mn = num(st.pop())
        x = num(st.pop())
        st.append(T if mn <= x < mx else F)
    elif c in HASHES:
        need(st, 1)
        st.append(HASHES[c](st.pop()))
    else:
        raise NotImplementedError("opcode %d" % c)


def run(tokens, max_steps=100000, max_elem=None):
    """-> {"ok": bool, "trace": [(stack, alt, token)...] (one entry per successful step), "fail_token": token or None, "returned": bool}
    Step accounting mirrors the unit the library steps by: every executed opcode / push is one step, an executed IF/NOTIF is one step,
    ELSE/ENDIF and anything in an untaken branch are zero steps."""
    st, alt = [], []
    trace = []
    vf = []  # exec flags of enclosing conditionals
    i = 0
    n = len(tokens)
    while i < n:
        t = tokens[i]
        i += 1
        executing = all(vf)
        if t[0] == "op" and t[1] in (99, 100):
            if executing:
                try:
                    need(st, 1)
                except ScriptFail:
                    return {"ok": False, "trace": trace, "fail_token": t, "returned": False}
                v = truth(st.pop())
                if t[1] == 100:
                    v = not v
                vf.append(v)
                trace.append((list(st), list(alt), t))
            else:
                vf.append(False)
            continue
        if t[0] == "op" and t[1] == 103:
            if not vf:
                raise ValueError("unbalanced ELSE (excluded from the quantifier)")
            if all(vf[:-1]):
                vf[-1] = not vf[-1]
            continue
        if t[0] == "op" and t[1] == 104:
            if not vf:
                raise ValueError("unbalanced ENDIF (excluded from the quantifier)")
            vf.pop()
            continue
        if not executing:
            continue
        if t[0] == "op" and t[1] == 106:  # RETURN: stop, success
            trace.append((list(st), list(alt), t))
            return {"ok": True, "trace": trace, "fail_token": None, "returned": True}
        try:
            if t[0] == "op":
                exec_op(t[1], st, alt)
            else:
                st.append(t[-1])
        except ScriptFail:
            return {"ok": False, "trace": trace, "fail_token": t, "returned": False}
        if st and len(st[-1]) > (MAX_ELEM if max_elem is None else max_elem):
            raise OutOfScope("element size")
        trace.append((list(st), list(alt), t))
        if len(trace) > max_steps:
            raise ValueError("step bound")
    return {"ok": True, "trace": trace, "fail_token": None, "returned": False}


def push_of(v):
    """a token that pushes exactly v"""
    if len(v) == 0:
        return ("op", 0)
    if len(v) <= 75:
        return ("push", bytes(v))
    return ("pd", 76 if len(v) <= 255 else 77 if len(v) <= 65535 else 78, bytes(v))


def selftest():
    assert enc(0) == b"" and enc(1) == b"\x01" and enc(-1) == b"\x81" and enc(127) == b"\x7f" and enc(128) == b"\x80\x00" and enc(-128) == b"\x80\x80" and enc(255) == b"\xff\x00" and enc(-255) == b"\xff\x80"
    assert enc(2**31) == b"\x00\x00\x00\x80\x00" and num(b"\x00\x00\x00\x80\x00") == 2**31 and num(b"\x80") == 0 and num(b"\x01\x00") == 1 and num(b"\xff\xff") == -32767
    for v in (0, 1, -1, 127, -127, 128, -128, 255, 256, -256, 32767, 32768, -32768, 2**31 - 1, -(2**31), 2**63, -(2**70) + 5):
        assert num(enc(v)) == v
    assert not truth(b"") and not truth(b"\x00") and not truth(b"\x80") and not truth(b"\x00\x80") and truth(b"\x01") and truth(b"\x81") and truth(b"\x80\x00") and truth(b"\x00\x01")
    assert lshift(b"\x01\x80", 1) == b"\x03\x00" and rshift(b"\x01\x80", 1) == b"\x00\xc0" and lshift(b"\xff", 8) == b"\x00" and rshift(b"\x80\x00", 15) == b"\x00\x01"
    assert tdiv(-7, 2) == -3 and tmod(-7, 2) == -1 and tdiv(7, -2) == -3 and tmod(7, -2) == 1

    def r(*toks):
        out = run([("op", x) if isinstance(x, int) else ("push", x) for x in toks])
        return out["ok"], (out["trace"][-1][0] if out["trace"] else [])

    # examples from the BSV / BCH opcode specifications and the node's script tests
    assert r(85, 83, 148) == (True, [b"\x02"])  # 5 3 SUB
    assert r(81, 82, 126) == (True, [b"\x01\x02"])  # CAT
    assert r(b"\x01\x02\x03", 81, 127) == (True, [b"\x01", b"\x02\x03"])  # SPLIT
    assert r(82, 84, 128) == (True, [b"\x02\x00\x00\x00"])  # 2 4 NUM2BIN
    assert r(b"\x85", 84, 128) == (True, [b"\x05\x00\x00\x80"])  # -5 4 NUM2BIN
    assert r(b"\x05\x00\x00\x80", 129) == (True, [b"\x85"])  # BIN2NUM
    assert r(82, 83, 159) == (True, [T]) and r(83, 82, 159) == (True, [F])  # LESSTHAN
    assert r(81, 0, 150)[0] is False  # 1 0 DIV fails
    assert r(b"\x87", 83, 150) == (True, [b"\x82"]) and r(b"\x87", 83, 151) == (True, [b"\x81"])  # -7/3 = -2, -7%3 = -1
    assert r(81, 82, 110) == (True, [b"\x01", b"\x02", b"\x01", b"\x02"])  # 2DUP
    assert r(81, 82, 83, 123) == (True, [b"\x02", b"\x03", b"\x01"])  # ROT
    assert r(81, 82, 83, 84, 114) == (True, [b"\x03", b"\x04", b"\x01", b"\x02"])  # 2SWAP
    assert r(81, 82, 83, 84, 85, 86, 113) == (True, [b"\x03", b"\x04", b"\x05", b"\x06", b"\x01", b"\x02"])  # 2ROT
    assert r(81, 82, 125) == (True, [b"\x02", b"\x01", b"\x02"])  # TUCK
    assert r(83, 82, 84, 165) == (True, [T]) and r(84, 82, 84, 165) == (True, [F]) and r(82, 82, 84, 165) == (True, [T])  # WITHIN [min,max)
    assert r(0, 100, 87, 103, 88, 104) == (True, [b"\x07"])  # 0 NOTIF 7 ELSE 8 ENDIF
    assert r(b"\x81", 99, 87, 104) == (True, [b"\x07"])  # -1 is true
    assert r(81, 106, 82) == (True, [b"\x01"])  # RETURN stops
    assert r(b"\x01\x02", b"\x03", 132)[0] is False  # AND with unequal lengths
    assert r(81, 81, 135) == (True, [T]) and r(81, 82, 135) == (True, [F])
    assert r(0, 115) == (True, [b""]) and r(81, 115) == (True, [T, T])  # IFDUP
    assert r(b"\x80\x00", 81, 153) == (True, [b"\x40\x00"])  # RSHIFT on the byte string
    assert r(81, 82, 83, 82, 121) == (True, [b"\x01", b"\x02", b"\x03", b"\x01"]) and r(81, 82, 83, 82, 122) == (True, [b"\x02", b"\x03", b"\x01"])
