"""AES (FIPS-197) written from the specification, CBC with PKCS#7, CTR with a 128-bit big-endian counter block."""

SBOX = [0] * 256
INV_SBOX = [0] * 256


def _init():
    # generate the S-box from the multiplicative inverse in GF(2^8) followed by the affine map (FIPS-197 §5.1.1)
    p = q = 1
    while True:
        # p * 3
        p = p ^ ((p << 1) & 0xFF) ^ (0x1B if p & 0x80 else 0)
        # q / 3
        q ^= q << 1
        q ^= q << 2
        q ^= q << 4
        q &= 0xFF
        if q & 0x80:
            q ^= 0x09
        x = q ^ ((q << 1) | (q >> 7)) & 0xFF ^ ((q << 2) | (q >> 6)) & 0xFF ^ ((q << 3) | (q >> 5)) & 0xFF ^ ((q << 4) | (q >> 4)) & 0xFF
        SBOX[p] = (x ^ 0x63) & 0xFF
        if p == 1:
            break
    SBOX[0] = 0x63
    for i, v in enumerate(SBOX):
        INV_SBOX[v] = i


_init()


def xt(a):
    return ((a << 1) ^ 0x1B) & 0xFF if a & 0x80 else a << 1


def gmul(a, b):
    r = 0
    while b:
        if b & 1:
            r ^= a
        a = xt(a)
        b >>= 1
    return r


MUL = {m: [gmul(x, m) for x in range(256)] for m in (2, 3, 9, 11, 13, 14)}


def expand_key(key):
    nk = len(key) // 4
    nr = nk + 6
    w = [list(key[4 * i : 4 * i + 4]) for i in range(nk)]
    rcon = 1
    for i in range(nk, 4 * (nr + 1)):
        t = list(w[i - 1])
        if i % nk == 0:
            t = t[1:] + t[:1]
            t = [SBOX[b] for b in t]
            t[0] ^= rcon
            rcon = xt(rcon)
        elif nk > 6 and i % nk == 4:
            t = [SBOX[b] for b in t]
        w.append([a ^ b for a, b in zip(w[i - nk], t)])
    return [sum(w[4 * r : 4 * r + 4], []) for r in range(nr + 1)]


def enc_block(rk, blk):
    s = [a ^ b for a, b in zip(blk, rk[0])]
    nr = len(rk) - 1
    for rnd in range(1, nr + 1):
        s = [SBOX[b] for b in s]
        # shift rows (state is column-major: index = 4*col + row)
        s = [s[(4 * (c + r) + r) % 16] for c in range(4) for r in range(4)]
        if rnd != nr:
            t = []
            for c in range(4):
                a0, a1, a2, a3 = s[4 * c : 4 * c + 4]
                t += [MUL[2][a0] ^ MUL[3][a1] ^ a2 ^ a3, a0 ^ MUL[2][a1] ^ MUL[3][a2] ^ a3, a0 ^ a1 ^ MUL[2][a2] ^ MUL[3][a3], MUL[3][a0] ^ a1 ^ a2 ^ MUL[2][a3]]
            s = t
        s = [a ^ b for a, b in zip(s, rk[rnd])]
    return bytes(s)


def dec_block(rk, blk):
    nr = len(rk) - 1
    s = [a ^ b for a, b in zip(blk, rk[nr])]
    for rnd in range(nr - 1, -1, -1):
        # inverse shift rows
        s = [s[(4 * (c - r) + r) % 16] for c in range(4) for r in range(4)]
        s = [INV_SBOX[b] for b in s]
        s = [a ^ b for a, b in zip(s, rk[rnd])]
        if rnd != 0:
            t = []
            for c in range(4):
                a0, a1, a2, a3 = s[4 * c : 4 * c + 4]
                t += [
                    MUL[14][a0] ^ MUL[11][a1] ^ MUL[13][a2] ^ MUL[9][a3],
                    MUL[9][a0] ^ MUL[14][a1] ^ MUL[11][a2] ^ MUL[13][a3],
                    MUL[13][a0] ^ MUL[9][a1] ^ MUL[14][a2] ^ MUL[11][a3],
                    MUL[11][a0] ^ MUL[13][a1] ^ MUL[9][a2] ^ MUL[14][a3],
                ]
            s = t
    return bytes(s)


def cbc_encrypt_raw(key, iv, data):
    assert len(data) % 16 == 0
    rk = expand_key(key)
    out = []
    prev = iv
    for i in range(0, len(data), 16):
        prev = enc_block(rk, bytes(a ^ b for a, b in zip(data[i : i + 16], prev)))
        out.append(prev)
    return b"".join(out)


def pkcs7_pad(m):
    n = 16 - len(m) % 16
    return m + bytes([n]) * n


def cbc_encrypt(key, iv, msg):
    return cbc_encrypt_raw(key, iv, pkcs7_pad(msg))


def cbc_decrypt(key, iv, ct):
    """-> plaintext or None (bad length / padding)"""
    if len(ct) == 0 or len(ct) % 16:
        return None
    rk = expand_key(key)
    out = []
    prev = iv
    for i in range(0, len(ct), 16):
        blk = ct[i : i + 16]
        out.append(bytes(a ^ b for a, b in zip(dec_block(rk, blk), prev)))
        prev = blk
    p = b"".join(out)
    n = p[-1]
    if n < 1 or n > 16 or p[-n:] != bytes([n]) * n:
        return None
    return p[:-n]


def ctr(key, iv, msg):
    rk = expand_key(key)
    c = int.from_bytes(iv, "big")
    out = bytearray()
    for i in range(0, len(msg), 16):
        ks = enc_block(rk, (c % (1 << 128)).to_bytes(16, "big"))
        out += bytes(a ^ b for a, b in zip(msg[i : i + 16], ks))
        c += 1
    return bytes(out)


def selftest():
    assert SBOX[0x53] == 0xED and SBOX[0] == 0x63 and SBOX[0xFF] == 0x16
    # FIPS-197 appendix C
    pt = bytes.fromhex("00112233445566778899aabbccddeeff")
    assert enc_block(expand_key(bytes(range(16))), pt).hex() == "69c4e0d86a7b0430d8cdb78070b4c55a"
    assert enc_block(expand_key(bytes(range(32))), pt).hex() == "8ea2b7ca516745bfeafc49904b496089"
    assert dec_block(expand_key(bytes(range(16))), bytes.fromhex("69c4e0d86a7b0430d8cdb78070b4c55a")) == pt
    assert dec_block(expand_key(bytes(range(32))), bytes.fromhex("8ea2b7ca516745bfeafc49904b496089")) == pt
    # SP 800-38A F.2.1 (CBC-AES128) and F.5.1 (CTR-AES128), F.5.5 (CTR-AES256)
    k = bytes.fromhex("2b7e151628aed2a6abf7158809cf4f3c")
    p = bytes.fromhex("6bc1bee22e409f96e93d7e117393172aae2d8a571e03ac9c9eb76fac45af8e51")
    assert cbc_encrypt_raw(k, bytes(range(16)), p).hex() == "7649abac8119b246cee98e9b12e9197d5086cb9b507219ee95db113a917678b2"
    assert ctr(k, bytes.fromhex("f0f1f2f3f4f5f6f7f8f9fafbfcfdfeff"), p).hex() == "874d6191b620e3261bef6864990db6ce9806f66b7970fdff8617187bb9fffdff"
    k256 = bytes.fromhex("603deb1015ca71be2b73aef0857d77811f352c073b6108d72d9810a30914dff4")
    assert ctr(k256, bytes.fromhex("f0f1f2f3f4f5f6f7f8f9fafbfcfdfeff"), p[:16]).hex() == "601ec313775789a5b7a7f504bbf3d228"
    assert cbc_decrypt(k, bytes(16), cbc_encrypt(k, bytes(16), b"hello")) == b"hello" and len(cbc_encrypt(k, bytes(16), b"x" * 16)) == 32
    assert cbc_decrypt(k, bytes(16), b"") is None
    import shutil, subprocess

    if shutil.which("openssl"):
        try:
            o = subprocess.run(["openssl", "enc", "-aes-128-cbc", "-K", k.hex(), "-iv", "00" * 16], input=b"attack at dawn!!x", capture_output=True, timeout=10).stdout
            assert o == cbc_encrypt(k, bytes(16), b"attack at dawn!!x")
        except (subprocess.SubprocessError, OSError):
            pass
