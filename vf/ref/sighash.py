"""Reference signature-hash preimages, written from the specifications, working on reference-decoded transaction fields.

FORKID: https://github.com/bitcoincashorg/bitcoincash.org/blob/master/spec/replay-protected-sighash.md (BIP143 layout).
Legacy: the original SignatureHash serialisation (Satoshi client / BSV node `SignatureHash` without FORKID)."""
import struct

from . import wire

ALL, NONE, SINGLE, FORKID, ACP = 1, 2, 3, 0x40, 0x80
FORKID_FLAGS = [0x41, 0x42, 0x43, 0xC1, 0xC2, 0xC3]
LEGACY_FLAGS = [0x01, 0x02, 0x03, 0x81, 0x82, 0x83]


class NoSingleOutput(Exception):
    """SINGLE with no output at the input's index: the library is allowed to refuse this with an error."""


def outpoint(i):
    return i["txid_wire"] + struct.pack("<I", i["vout"])


def bip143(tx, idx, subscript, value, flag):
    base = flag & 0x1F
    acp = bool(flag & ACP)
    z = b"\x00" * 32
    if not acp:
        hash_prevouts = wire.sha256d(b"".join(outpoint(i) for i in tx["ins"]))
    else:
        hash_prevouts = z
    if not acp and base != SINGLE and base != NONE:
        hash_sequence = wire.sha256d(b"".join(struct.pack("<I", i["seq"]) for i in tx["ins"]))
    else:
        hash_sequence = z
    if base != SINGLE and base != NONE:
        hash_outputs = wire.sha256d(b"".join(wire.txout_encode(o) for o in tx["outs"]))
    elif base == SINGLE:
        if idx < len(tx["outs"]):
            hash_outputs = wire.sha256d(wire.txout_encode(tx["outs"][idx]))
        else:
            raise NoSingleOutput()
    else:
        hash_outputs = z
    inp = tx["ins"][idx]
    return (
        struct.pack("<I", tx["version"])
        + hash_prevouts
        + hash_sequence
        + outpoint(inp)
        + wire.cs_enc(len(subscript))
        + subscript
        + struct.pack("<Q", value)
        + struct.pack("<I", inp["seq"])
        + hash_outputs
        + struct.pack("<I", tx["locktime"])
        + struct.pack("<I", flag)
    )


def bip143_single_oob_spec_form(tx, idx, subscript, value, flag):
    """the specification's own answer for SINGLE without a matching output: hashOutputs is all zero"""
    t2 = dict(tx)
    pre = bip143(dict(tx, outs=tx["outs"] + [{"value": 0, "script": b""}] * (idx + 1 - len(tx["outs"]))), idx, subscript, value, flag)
    # replace hashOutputs (32 bytes before locktime+type) by zeros
    return pre[:-40] + b"\x00" * 32 + pre[-8:]


def strip_codeseparators(script):
    """remove every OP_CODESEPARATOR opcode (token level; 0xab inside push data is untouched)"""
    toks = wire.tokenize(script)
    return wire.detok([t for t in toks if not (t[0] == "op" and t[1] == wire.OP_CODESEPARATOR)])


def legacy(tx, idx, subscript, flag):
    base = flag & 0x1F
    acp = bool(flag & ACP)
    sub = strip_codeseparators(subscript)
    ins = []
    for k, i in enumerate(tx["ins"]):
        j = dict(i)
        j["script"] = sub if k == idx else b""
        if k != idx and base in (NONE, SINGLE):
            j["seq"] = 0
        ins.append(j)
    if base == NONE:
        outs = []
    elif base == SINGLE:
        if idx >= len(tx["outs"]):
            raise NoSingleOutput()
        outs = [{"value": 0xFFFFFFFFFFFFFFFF, "script": b""} for _ in range(idx)] + [tx["outs"][idx]]
    else:
        outs = list(tx["outs"])
    if acp:
        ins = [ins[idx]]
    t = {"version": tx["version"], "ins": ins, "outs": outs, "locktime": tx["locktime"]}
    return wire.tx_encode(t) + struct.pack("<I", flag)


def preimage(tx, idx, subscript, value, flag):
    if flag & FORKID:
        return bip143(tx, idx, subscript, value, flag)
    return legacy(tx, idx, subscript, flag)


def selftest():
    # BIP143-style vector from the library's own README/tests is not independent; use the well-known BCH test vector structure:
    # check structural facts that must hold for any implementation of the spec.
    tx = {
        "version": 2,
        "ins": [{"txid_wire": bytes(range(32)), "vout": 1, "script": b"", "seq": 0x01020304}, {"txid_wire": bytes(range(32, 64)), "vout": 0x0A0B0C0D, "script": b"", "seq": 0xFFFFFFFE}],
        "outs": [{"value": 5, "script": b"\x51"}, {"value": 0x0102030405060708, "script": b"\x76\xa9"}],
        "locktime": 0x11223344,
    }
    p = bip143(tx, 1, b"\x51\x52", 7, 0x41)
    assert len(p) == 4 + 32 + 32 + 36 + 1 + 2 + 8 + 4 + 32 + 4 + 4
    assert p[:4] == b"\x02\x00\x00\x00" and p[-4:] == b"\x41\x00\x00\x00" and p[-8:-4] == b"\x44\x33\x22\x11"
    assert p[36:68] == wire.sha256d(b"\x04\x03\x02\x01\xfe\xff\xff\xff")
    assert bip143(tx, 0, b"", 0, 0xC2)[4:68] == b"\x00" * 64
    lg = legacy(tx, 1, b"\xab\x51\x02\xab\xab", 0x03)
    d = wire.tx_decode(lg[:-4])
    assert d["ins"][1]["script"] == b"\x51\x02\xab\xab" and d["ins"][0]["seq"] == 0 and len(d["outs"]) == 2 and d["outs"][0]["value"] == 2**64 - 1 and d["outs"][0]["script"] == b""
    assert lg[-4:] == b"\x03\x00\x00\x00"
    # Known-answer test: BIP143 native P2WPKH example's structure shares the layout; verify hashPrevouts/hashSequence/hashOutputs from BIP143
    ins = [
        {"txid_wire": bytes.fromhex("fff7f7881a8099afa6940d42d1e7f6362bec38171ea3edf433541db4e4ad969f"), "vout": 0, "script": b"", "seq": 0xFFFFFFEE},
        {"txid_wire": bytes.fromhex("ef51e1b804cc89d182d279655c3aa89e815b1b309fe287d9b2b55d57b90ec68a"), "vout": 1, "script": b"", "seq": 0xFFFFFFFF},
    ]
    outs = [
        {"value": 112340000, "script": bytes.fromhex("76a9148280b37df378db99f66f85c95a783a76ac7a6d5988ac")},
        {"value": 223450000, "script": bytes.fromhex("76a9143bde42dbee7e4dbe6a21b2d50ce2f0167faa815988ac")},
    ]
    t = {"version": 1, "ins": ins, "outs": outs, "locktime": 17}
    sc = bytes.fromhex("76a9141d0f172a0ecb48aee1be1f2687d2963ae33f71a188ac")
    p = bip143(t, 1, sc, 600000000, 0x01 | 0x40)
    assert p[4:36].hex() == "96b827c8483d4e9b96712b6713a7b68d6e8003a781feba36c31143470b4efd37"
    assert p[36:68].hex().startswith("52b0a642eea2fb7ae638c36f6252b6750293dbe574a806984b8")
    assert p[-40:-8].hex() == "863ef3e1a92afbfdb97f31ad0fc7683ee943e9abcf2501590ff8f6551f47e5e5"
    # same preimage as BIP143's example except for the hash type (01 -> 41)
    assert wire.sha256d(p[:-4] + b"\x01\x00\x00\x00").hex() == "c37af31116d1b27caf68aae9e3ac82f1477929014d5b917657d0eb49478cb670"
