"""BIP32 reference over the reference curve."""
import hashlib
import hmac as _hmac

from . import base58, ec
from .hashes import hash160

XPRV = bytes.fromhex("0488ade4")
XPUB = bytes.fromhex("0488b21e")


class Node:
    def __init__(self, key, pub, chain, depth, index, fp):
        self.key = key  # int or None
        self.pub = pub  # affine point
        self.chain = chain
        self.depth = depth
        self.index = index
        self.fp = fp

    def neuter(self):
        return Node(None, self.pub, self.chain, self.depth, self.index, self.fp)

    def to_string(self):
        if self.key is not None:
            body = XPRV + bytes([self.depth & 0xFF]) + self.fp + self.index.to_bytes(4, "big") + self.chain + b"\x00" + self.key.to_bytes(32, "big")
        else:
            body = XPUB + bytes([self.depth & 0xFF]) + self.fp + self.index.to_bytes(4, "big") + self.chain + ec.ser(self.pub, True)
        return base58.check_encode(body)


def master(seed):
    I = _hmac.new(b"Bitcoin seed", seed, hashlib.sha512).digest()
    k = int.from_bytes(I[:32], "big")
    if k == 0 or k >= ec.N:
        return None
    return Node(k, ec.mul_g(k), I[32:], 0, 0, b"\x00" * 4)


def ckd_priv(n, i):
    if i >= 0x80000000:
        data = b"\x00" + n.key.to_bytes(32, "big") + i.to_bytes(4, "big")
    else:
        data = ec.ser(n.pub, True) + i.to_bytes(4, "big")
    I = _hmac.new(n.chain, data, hashlib.sha512).digest()
    il = int.from_bytes(I[:32], "big")
    if il >= ec.N:
        return None
    k = (il + n.key) % ec.N
    if k == 0:
        return None
    return Node(k, ec.mul_g(k), I[32:], n.depth + 1, i, hash160(ec.ser(n.pub, True))[:4])


def ckd_pub(n, i):
    if i >= 0x80000000:
        return None
    data = ec.ser(n.pub, True) + i.to_bytes(4, "big")
    I = _hmac.new(n.chain, data, hashlib.sha512).digest()
    il = int.from_bytes(I[:32], "big")
    if il >= ec.N:
        return None
    pt = ec.add(ec.mul_g(il), n.pub)
    if pt is None:
        return None
    return Node(None, pt, I[32:], n.depth + 1, i, hash160(ec.ser(n.pub, True))[:4])


def parse_path(path):
    """standard spellings only: m(/index['|h|H])* ; returns list of indices or None"""
    parts = path.split("/")
    if parts[0] not in ("m", "M"):
        return None
    out = []
    for p in parts[1:]:
        if p == "":
            continue
        hard = p[-1] in "'hH"
        num = p[:-1] if hard else p
        if not num.isdigit():
            return None
        v = int(num)
        if v >= 0x80000000:
            return None
        out.append(v + (0x80000000 if hard else 0))
    return out


def selftest():
    # BIP32 test vector 1
    m = master(bytes.fromhex("000102030405060708090a0b0c0d0e0f"))
    assert m.to_string() == "xprv9s21ZrQH143K3QTDL4LXw2F7HEK3wJUD2nW2nRk4stbPy6cq3jPPqjiChkVvvNKmPGJxWUtg6LnF5kejMRNNU3TGtRBeJgk33yuGBxrMPHi"
    assert m.neuter().to_string() == "xpub661MyMwAqRbcFtXgS5sYJABqqG9YLmC4Q1Rdap9gSE8NqtwybGhePY2gZ29ESFjqJoCu1Rupje8YtGqsefD265TMg7usUDFdp6W1EGMcet8"
    c = ckd_priv(m, 0x80000000)
    assert c.to_string() == "xprv9uHRZZhk6KAJC1avXpDAp4MDc3sQKNxDiPvvkX8Br5ngLNv1TxvUxt4cV1rGL5hj6KCesnDYUhd7oWgT11eZG7XnxHrnYeSvkzY7d2bhkJ7"
    c2 = ckd_priv(c, 1)
    assert c2.to_string() == "xprv9wTYmMFdV23N2TdNG573QoEsfRrWKQgWeibmLntzniatZvR9BmLnvSxqu53Kw1UmYPxLgboyZQaXwTCg8MSY3H2EU4pWcQDnRnrVA1xe8fs"
    assert ckd_pub(c.neuter(), 1).to_string() == c2.neuter().to_string() == "xpub6ASuArnXKPbfEwhqN6e3mwBcDTgzisQN1wXN9BJcM47sSikHjJf3UFHKkNAWbWMiGj7Wf5uMash7SyYq527Hqck2AxYysAA7xmALppuCkwQ"
    # test vector 2 (leading-zero retention irrelevant here; long seed)
    m2 = master(bytes.fromhex("fffcf9f6f3f0edeae7e4e1dedbd8d5d2cfccc9c6c3c0bdbab7b4b1aeaba8a5a29f9c999693908d8a8784817e7b7875726f6c696663605d5a5754514e4b484542"))
    assert m2.to_string() == "xprv9s21ZrQH143K31xYSDQpPDxsXRTUcvj2iNHm5NUtrGiGG5e2DtALGdso3pGz6ssrdK4PFmM8NSpSBHNqPqm55Qn3LqFtT2emdEXVYsCzC2U"
    assert parse_path("m/0'/1/2h/2H") == [0x80000000, 1, 0x80000002, 0x80000002] and parse_path("m") == []
