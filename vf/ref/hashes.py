"""Hash / HMAC / PBKDF2 references on hashlib (HMAC written out from RFC 2104 so that composite hashes can be plugged in)."""
import hashlib


def _ripemd160_py(msg):
    # pure-Python RIPEMD-160 (fallback + cross-check for hashlib's OpenSSL-provided one)
    def rol(x, n):
        return ((x << n) | (x >> (32 - n))) & 0xFFFFFFFF

    r1 = [0, 1, 2, 3, 4, 5, 6, 7, 8, 9, 10, 11, 12, 13, 14, 15, 7, 4, 13, 1, 10, 6, 15, 3, 12, 0, 9, 5, 2, 14, 11, 8, 3, 10, 14, 4, 9, 15, 8, 1, 2, 7, 0, 6, 13, 11, 5, 12, 1, 9, 11, 10, 0, 8, 12, 4, 13, 3, 7, 15, 14, 5, 6, 2, 4, 0, 5, 9, 7, 12, 2, 10, 14, 1, 3, 8, 11, 6, 15, 13]
    r2 = [5, 14, 7, 0, 9, 2, 11, 4, 13, 6, 15, 8, 1, 10, 3, 12, 6, 11, 3, 7, 0, 13, 5, 10, 14, 15, 8, 12, 4, 9, 1, 2, 15, 5, 1, 3, 7, 14, 6, 9, 11, 8, 12, 2, 10, 0, 4, 13, 8, 6, 4, 1, 3, 11, 15, 0, 5, 12, 2, 13, 9, 7, 10, 14, 12, 15, 10, 4, 1, 5, 8, 7, 6, 2, 13, 14, 0, 3, 9, 11]
    s1 = [11, 14, 15, 12, 5, 8, 7, 9, 11, 13, 14, 15, 6, 7, 9, 8, 7, 6, 8, 13, 11, 9, 7, 15, 7, 12, 15, 9, 11, 7, 13, 12, 11, 13, 6, 7, 14, 9, 13, 15, 14, 8, 13, 6, 5, 12, 7, 5, 11, 12, 14, 15, 14, 15, 9, 8, 9, 14, 5, 6, 8, 6, 5, 12, 9, 15, 5, 11, 6, 8, 13, 12, 5, 12, 13, 14, 11, 8, 5, 6]
    s2 = [8, 9, 9, 11, 13, 15, 15, 5, 7, 7, 8, 11, 14, 14, 12, 6, 9, 13, 15, 7, 12, 8, 9, 11, 7, 7, 12, 7, 6, 15, 13, 11, 9, 7, 15, 11, 8, 6, 6, 14, 12, 13, 5, 14, 13, 13, 7, 5, 15, 5, 8, 11, 14, 14, 6, 14, 6, 9, 12, 9, 12, 5, 15, 8, 8, 5, 12, 9, 12, 5, 14, 6, 8, 13, 6, 5, 15, 13, 11, 11]
    K1 = [0, 0x5A827999, 0x6ED9EBA1, 0x8F1BBCDC, 0xA953FD4E]
    K2 = [0x50A28BE6, 0x5C4DD124, 0x6D703EF3, 0x7A6D76E9, 0]

    def f(j, x, y, z):
        if j < 16:
            return x ^ y ^ z
        if j < 32:
            return (x & y) | (~x & 0xFFFFFFFF & z)
        if j < 48:
            return (x | (~y & 0xFFFFFFFF)) ^ z
        if j < 64:
            return (x & z) | (y & (~z & 0xFFFFFFFF))
        return x ^ (y | (~z & 0xFFFFFFFF))

    h = [0x67452301, 0xEFCDAB89, 0x98BADCFE, 0x10325476, 0xC3D2E1F0]
    ml = len(msg)
    msg = msg + b"\x80" + b"\x00" * ((55 - ml) % 64) + (8 * ml).to_bytes(8, "little")
    for off in range(0, len(msg), 64):
        X = [int.from_bytes(msg[off + 4 * i : off + 4 * i + 4], "little") for i in range(16)]
        a, b, c, d, e = h
        a2, b2, c2, d2, e2 = h
        for j in range(80):
            t = (rol((a + f(j, b, c, d) + X[r1[j]] + K1[j // 16]) & 0xFFFFFFFF, s1[j]) + e) & 0xFFFFFFFF
            a, e, d, c, b = e, d, rol(c, 10), b, t
            t = (rol((a2 + f(79 - j, b2, c2, d2) + X[r2[j]] + K2[j // 16]) & 0xFFFFFFFF, s2[j]) + e2) & 0xFFFFFFFF
            a2, e2, d2, c2, b2 = e2, d2, rol(c2, 10), b2, t
        t = (h[1] + c + d2) & 0xFFFFFFFF
        h[1] = (h[2] + d + e2) & 0xFFFFFFFF
        h[2] = (h[3] + e + a2) & 0xFFFFFFFF
        h[3] = (h[4] + a + b2) & 0xFFFFFFFF
        h[4] = (h[0] + b + c2) & 0xFFFFFFFF
        h[0] = t
    return b"".join(x.to_bytes(4, "little") for x in h)


try:
    hashlib.new("ripemd160", b"")
    _HAVE_R = True
except Exception:
    _HAVE_R = False


def ripemd160(b):
    if _HAVE_R:
        return hashlib.new("ripemd160", b).digest()
    return _ripemd160_py(b)


def sha1(b):
    return hashlib.sha1(b).digest()


def sha256(b):
    return hashlib.sha256(b).digest()


def sha256d(b):
    return sha256(sha256(b))


def sha512(b):
    return hashlib.sha512(b).digest()


def hash160(b):
    return ripemd160(sha256(b))


FUNCS = {"sha1": (sha1, 64), "sha256": (sha256, 64), "sha256d": (sha256d, 64), "sha512": (sha512, 128), "ripemd160": (ripemd160, 64), "hash160": (hash160, 64)}


def hmac(name, key, msg):
    """RFC 2104 over (hash, block size)"""
    fn, bs = FUNCS[name]
    if len(key) > bs:
        key = fn(key)
    key = key + b"\x00" * (bs - len(key))
    return fn(bytes(k ^ 0x5C for k in key) + fn(bytes(k ^ 0x36 for k in key) + msg))


def pbkdf2(name, password, salt, rounds, dklen):
    return hashlib.pbkdf2_hmac(name, password, salt, rounds, dklen)


def selftest():
    assert _ripemd160_py(b"").hex() == "9c1185a5c5e9fc54612808977ee8f548b2258d31"
    assert _ripemd160_py(b"abc").hex() == "8eb208f7e05d987a9b044a8e98c6b087f15a0bfc"
    assert _ripemd160_py(b"a" * 1000) == ripemd160(b"a" * 1000) and _ripemd160_py(bytes(range(200))) == ripemd160(bytes(range(200)))
    assert ripemd160(b"message digest").hex() == "5d0689ef49d2fae572b881b123a85ffa21595f36"
    assert sha1(b"abc").hex() == "a9993e364706816aba3e25717850c26c9cd0d89d"
    assert sha256(b"abc").hex() == "ba7816bf8f01cfea414140de5dae2223b00361a396177a9cb410ff61f20015ad"
    assert sha512(b"abc").hex().startswith("ddaf35a193617abacc417349ae20413112e6fa4e89a97ea20a9eeee64b55d39a")
    # RFC 4231 test case 2 and RFC 2202
    assert hmac("sha256", b"Jefe", b"what do ya want for nothing?").hex() == "5bdcc146bf60754e6a042426089575c75a003f089d2739839dec58b964ec3843"
    assert hmac("sha512", b"Jefe", b"what do ya want for nothing?").hex().startswith("164b7a7bfcf819e2e395fbe73b56e0a387bd64222e831fd610270cd7ea250554")
    assert hmac("sha1", b"Jefe", b"what do ya want for nothing?").hex() == "effcdf6ae5eb2fa2d27416d5f184df9c259a7c79"
    assert hmac("sha256", b"\xaa" * 131, b"Test Using Larger Than Block-Size Key - Hash Key First").hex() == "60e431591ee0b67f0d8a26aacbf5b77f8e0bc6213728c5140546040f0ee37f54"
    import hmac as _h

    assert hmac("ripemd160", b"k" * 70, b"m") == _h.new(b"k" * 70, b"m", "ripemd160").digest() if _HAVE_R else True
    # RFC 6070
    assert pbkdf2("sha1", b"password", b"salt", 2, 20).hex() == "ea6c014dc72d6f8ccd1ed92ace1d41f0d8de8957"
