"""Independent reference codecs: compact-size integers, transaction wire format, script tokenizer, conditional nesting."""
import hashlib
import struct


def sha256(b):
    return hashlib.sha256(b).digest()


def sha256d(b):
    return hashlib.sha256(hashlib.sha256(b).digest()).digest()


class Trunc(Exception):
    pass


def cs_enc(n):
    if n < 0xFD:
        return bytes([n])
    if n <= 0xFFFF:
        return b"\xfd" + struct.pack("<H", n)
    if n <= 0xFFFFFFFF:
        return b"\xfe" + struct.pack("<I", n)
    return b"\xff" + struct.pack("<Q", n)


def cs_dec(b, off):
    """-> (value, new offset, canonical?)"""
    if off >= len(b):
        raise Trunc("compact-size")
    t = b[off]
    if t < 0xFD:
        return t, off + 1, True
    w = {0xFD: 2, 0xFE: 4, 0xFF: 8}[t]
    if off + 1 + w > len(b):
        raise Trunc("compact-size body")
    v = int.from_bytes(b[off + 1 : off + 1 + w], "little")
    canon = (w == 2 and v >= 0xFD) or (w == 4 and v > 0xFFFF) or (w == 8 and v > 0xFFFFFFFF)
    return v, off + 1 + w, canon


def take(b, off, n, what):
    if off + n > len(b):
        raise Trunc(what)
    return b[off : off + n], off + n


def tx_decode(b):
    """Decode the wire format. Raises Trunc when the bytes end early. Returns fields + whether every compact-size was canonical
    + the offset where the transaction ended (trailing bytes are the caller's business)."""
    canon = True
    off = 0
    v, off = take(b, off, 4, "version")
    version = struct.unpack("<I", v)[0]
    n_in, off, c = cs_dec(b, off)
    canon &= c
    ins = []
    for _ in range(n_in):
        txid, off = take(b, off, 32, "txid")
        vo, off = take(b, off, 4, "vout")
        sl, off, c = cs_dec(b, off)
        canon &= c
        sc, off = take(b, off, sl, "script_sig")
        sq, off = take(b, off, 4, "sequence")
        ins.append({"txid_wire": txid, "vout": struct.unpack("<I", vo)[0], "script": sc, "seq": struct.unpack("<I", sq)[0]})
    n_out, off, c = cs_dec(b, off)
    canon &= c
    outs = []
    for _ in range(n_out):
        val, off = take(b, off, 8, "value")
        sl, off, c = cs_dec(b, off)
        canon &= c
        sc, off = take(b, off, sl, "script_pubkey")
        outs.append({"value": struct.unpack("<Q", val)[0], "script": sc})
    lt, off = take(b, off, 4, "locktime")
    return {"version": version, "ins": ins, "outs": outs, "locktime": struct.unpack("<I", lt)[0], "canonical": canon, "end": off}


def txin_encode(i):
    return i["txid_wire"] + struct.pack("<I", i["vout"]) + cs_enc(len(i["script"])) + i["script"] + struct.pack("<I", i["seq"])


def txout_encode(o):
    return struct.pack("<Q", o["value"]) + cs_enc(len(o["script"])) + o["script"]


def tx_encode(t):
    out = [struct.pack("<I", t["version"]), cs_enc(len(t["ins"]))]
    for i in t["ins"]:
        out.append(txin_encode(i))
    out.append(cs_enc(len(t["outs"])))
    for o in t["outs"]:
        out.append(txout_encode(o))
    out.append(struct.pack("<I", t["locktime"]))
    return b"".join(out)


def is_coinbase_in(i):
    return i["txid_wire"] == b"\x00" * 32 and i["vout"] == 0xFFFFFFFF


def txid(b):
    return sha256d(b)[::-1]


# ------------------------------------------------------------------------------------------------
# scripts

OP_PUSHDATA1, OP_PUSHDATA2, OP_PUSHDATA4 = 76, 77, 78
OP_IF, OP_NOTIF, OP_VERIF, OP_VERNOTIF, OP_ELSE, OP_ENDIF = 99, 100, 101, 102, 103, 104
OP_CODESEPARATOR = 171


class ScriptTrunc(Exception):
    """.kind in {'direct','pushdata','lenfield'}; .tokens = tokens before the bad push; .declared/.remaining"""

    def __init__(self, kind, tokens, opcode, declared, remaining, at):
        super().__init__(kind)
        self.kind = kind
        self.tokens = tokens
        self.opcode = opcode
        self.declared = declared
        self.remaining = remaining
        self.at = at


def tokenize(b):
    """-> list of ('op', byte) | ('push', payload) | ('pd', opcode, payload). Raises ScriptTrunc on an incomplete push."""
    toks = []
    off = 0
    n = len(b)
    while off < n:
        c = b[off]
        at = off
        off += 1
        if 1 <= c <= 75:
            if off + c > n:
                raise ScriptTrunc("direct", toks, c, c, b[off:], at)
            toks.append(("push", bytes(b[off : off + c])))
            off += c
        elif c in (76, 77, 78):
            w = {76: 1, 77: 2, 78: 4}[c]
            if off + w > n:
                raise ScriptTrunc("lenfield", toks, c, None, b[off:], at)
            ln = int.from_bytes(b[off : off + w], "little")
            off += w
            if off + ln > n:
                raise ScriptTrunc("pushdata", toks, c, ln, b[off:], at)
            toks.append(("pd", c, bytes(b[off : off + ln])))
            off += ln
        else:
            toks.append(("op", c))
    return toks


def detok(toks):
    out = bytearray()
    for t in toks:
        if t[0] == "op":
            out.append(t[1])
        elif t[0] == "push":
            out.append(len(t[1]))
            out += t[1]
        else:
            w = {76: 1, 77: 2, 78: 4}[t[1]]
            out.append(t[1])
            out += len(t[2]).to_bytes(w, "little")
            out += t[2]
    return bytes(out)


def unclosed(toks, openers=(OP_IF, OP_NOTIF, OP_VERIF, OP_VERNOTIF)):
    """True iff some conditional opened by one of `openers` is never closed by an ENDIF (depth counting; ELSE is neutral;
    an ENDIF with nothing open is ignored)."""
    depth = 0
    for t in toks:
        if t[0] != "op":
            continue
        if t[1] in openers:
            depth += 1
        elif t[1] == OP_ENDIF and depth > 0:
            depth -= 1
    return depth > 0


def minimal_push(data):
    """Minimal push form for data of length >= 1 (length 0 has no push-opcode form other than OP_0)."""
    n = len(data)
    if n <= 75:
        return bytes([n]) + data
    if n <= 0xFF:
        return bytes([76, n]) + data
    if n <= 0xFFFF:
        return bytes([77]) + n.to_bytes(2, "little") + data
    return bytes([78]) + n.to_bytes(4, "little") + data


def push_prefix(n):
    if n <= 75:
        return bytes([n])
    if n <= 0xFF:
        return bytes([76, n])
    if n <= 0xFFFF:
        return bytes([77]) + n.to_bytes(2, "little")
    return bytes([78]) + n.to_bytes(4, "little")


def is_minimal_tok(t):
    if t[0] == "op":
        return True
    if t[0] == "push":
        return True
    ln = len(t[2])
    if ln == 0:
        return False  # PUSHDATAn with empty payload is never minimal (OP_0)
    return {76: 76 <= ln <= 0xFF, 77: 0x100 <= ln <= 0xFFFF, 78: ln > 0xFFFF}[t[1]]


def lib_tokens_flat(tokens):
    """Flatten the driver's token tree (JSON) into the reference's flat token tuples."""
    out = []

    def walk(ts):
        for t in ts:
            if "op" in t:
                out.append(("op", t["op"]))
            elif "push" in t:
                out.append(("push", bytes.fromhex(t["push"])))
            elif "pd" in t:
                out.append(("pd", t["pd"], bytes.fromhex(t["data"])))
            elif "if" in t:
                out.append(("op", t["if"]))
                walk(t["pass"])
                if t.get("fail") is not None:
                    out.append(("op", OP_ELSE))
                    walk(t["fail"])
                out.append(("op", OP_ENDIF))
            elif "cb" in t:
                out.append(("cb", bytes.fromhex(t["cb"])))
            else:
                raise ValueError("bad token %r" % (t,))

    walk(tokens)
    return out


# opcode bytes the library's enum defines (used only to *generate* scripts that must be accepted)
LIB_OPCODES = sorted(
    set(
        [0, 76, 77, 78, 79, 80]
        + list(range(81, 97))
        + [97, 98, 99, 100, 101, 102, 103, 104, 105, 106, 107, 108, 109, 110, 111, 112, 113, 114, 115, 116, 117, 118, 119, 120, 121, 122, 123, 124, 125]
        + [126, 127, 128, 129, 130, 131, 132, 133, 134, 135, 136, 137, 138, 139, 140, 141, 142, 143, 144, 145, 146, 147, 148, 149, 150, 151, 152, 153]
        + list(range(154, 166))
        + [166, 167, 168, 169, 170, 171, 172, 173, 174, 175, 176, 177, 178, 179, 180, 181, 182, 183, 184, 185, 186, 251, 252, 253, 254, 255]
    )
)
PLAIN_OPCODES = [c for c in LIB_OPCODES if c not in (76, 77, 78, 99, 100, 101, 102, 103, 104)]

OPNAMES = {
    0: "OP_0", 76: "OP_PUSHDATA1", 77: "OP_PUSHDATA2", 78: "OP_PUSHDATA4", 79: "OP_1NEGATE", 80: "OP_RESERVED",
    97: "OP_NOP", 98: "OP_VER", 99: "OP_IF", 100: "OP_NOTIF", 101: "OP_VERIF", 102: "OP_VERNOTIF", 103: "OP_ELSE", 104: "OP_ENDIF",
    105: "OP_VERIFY", 106: "OP_RETURN", 107: "OP_TOALTSTACK", 108: "OP_FROMALTSTACK", 109: "OP_2DROP", 110: "OP_2DUP", 111: "OP_3DUP",
    112: "OP_2OVER", 113: "OP_2ROT", 114: "OP_2SWAP", 115: "OP_IFDUP", 116: "OP_DEPTH", 117: "OP_DROP", 118: "OP_DUP", 119: "OP_NIP",
    120: "OP_OVER", 121: "OP_PICK", 122: "OP_ROLL", 123: "OP_ROT", 124: "OP_SWAP", 125: "OP_TUCK", 126: "OP_CAT", 127: "OP_SPLIT",
    128: "OP_NUM2BIN", 129: "OP_BIN2NUM", 130: "OP_SIZE", 131: "OP_INVERT", 132: "OP_AND", 133: "OP_OR", 134: "OP_XOR", 135: "OP_EQUAL",
    136: "OP_EQUALVERIFY", 137: "OP_RESERVED1", 138: "OP_RESERVED2", 139: "OP_1ADD", 140: "OP_1SUB", 141: "OP_2MUL", 142: "OP_2DIV",
    143: "OP_NEGATE", 144: "OP_ABS", 145: "OP_NOT", 146: "OP_0NOTEQUAL", 147: "OP_ADD", 148: "OP_SUB", 149: "OP_MUL", 150: "OP_DIV",
    151: "OP_MOD", 152: "OP_LSHIFT", 153: "OP_RSHIFT", 154: "OP_BOOLAND", 155: "OP_BOOLOR", 156: "OP_NUMEQUAL", 157: "OP_NUMEQUALVERIFY",
    158: "OP_NUMNOTEQUAL", 159: "OP_LESSTHAN", 160: "OP_GREATERTHAN", 161: "OP_LESSTHANOREQUAL", 162: "OP_GREATERTHANOREQUAL",
    163: "OP_MIN", 164: "OP_MAX", 165: "OP_WITHIN", 166: "OP_RIPEMD160", 167: "OP_SHA1", 168: "OP_SHA256", 169: "OP_HASH160",
    170: "OP_HASH256", 171: "OP_CODESEPARATOR", 172: "OP_CHECKSIG", 173: "OP_CHECKSIGVERIFY", 174: "OP_CHECKMULTISIG",
    175: "OP_CHECKMULTISIGVERIFY", 176: "OP_NOP1", 177: "OP_CHECKLOCKTIMEVERIFY", 178: "OP_CHECKSEQUENCEVERIFY", 179: "OP_NOP4",
    180: "OP_NOP5", 181: "OP_NOP6", 182: "OP_NOP7", 183: "OP_NOP8", 184: "OP_NOP9", 185: "OP_NOP10", 186: "OP_INVALID_ABOVE",
    251: "OP_DATA", 252: "OP_SIG", 253: "OP_PUBKEYHASH", 254: "OP_PUBKEY", 255: "OP_INVALIDOPCODE",
}
for _i in range(1, 17):
    OPNAMES[80 + _i] = "OP_%d" % _i
