"""Base58 / Base58Check reference."""
from .hashes import sha256d

ALPHABET = "123456789ABCDEFGHJKLMNPQRSTUVWXYZabcdefghijkmnopqrstuvwxyz"
_IDX = {c: i for i, c in enumerate(ALPHABET)}


def encode(b):
    n = int.from_bytes(b, "big")
    out = ""
    while n:
        n, r = divmod(n, 58)
        out = ALPHABET[r] + out
    z = len(b) - len(b.lstrip(b"\x00"))
    return "1" * z + out


def decode(s):
    """-> bytes or None (character outside the alphabet)"""
    n = 0
    for c in s:
        if c not in _IDX:
            return None
        n = n * 58 + _IDX[c]
    z = len(s) - len(s.lstrip("1"))
    body = n.to_bytes((n.bit_length() + 7) // 8, "big") if n else b""
    return b"\x00" * z + body


def check_encode(payload):
    return encode(payload + sha256d(payload)[:4])


def check_decode(s):
    """-> payload or None (bad character, too short, checksum mismatch)"""
    b = decode(s)
    if b is None or len(b) < 4:
        return None
    if sha256d(b[:-4])[:4] != b[-4:]:
        return None
    return b[:-4]


def selftest():
    assert encode(b"") == "" and encode(b"\x00") == "1" and encode(b"\x00\x00\x01") == "112"
    assert encode(bytes.fromhex("00010966776006953D5567439E5E39F86A0D273BEED61967F6")) == "16UwLL9Risc3QfPqBUvKofHmBQ7wMtjvM"
    assert check_encode(bytes.fromhex("00010966776006953D5567439E5E39F86A0D273BEE")) == "16UwLL9Risc3QfPqBUvKofHmBQ7wMtjvM"
    assert check_decode("16UwLL9Risc3QfPqBUvKofHmBQ7wMtjvM").hex() == "00010966776006953d5567439e5e39f86a0d273bee"
    assert check_decode("16UwLL9Risc3QfPqBUvKofHmBQ7wMtjvN") is None and decode("0") is None
    # WIF example from the Bitcoin wiki
    assert check_encode(bytes.fromhex("800C28FCA386C7A227600B2FE50B7CAE11EC86D3BF1FBE471BE89827E19D72AA1D")) == "5HueCGU8rMjxEXxiPuD5BDku4MkFqeZyd4dZ1jvhTVqvbTLvyTJ"
    assert decode(encode(b"\x00\x00abc\x00")) == b"\x00\x00abc\x00"
