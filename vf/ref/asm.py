"""Reference ASM renderer / parser for scripts (token level)."""
from . import wire

NAME2OP = {v: k for k, v in wire.OPNAMES.items()}
ALIASES = {str(i): (0 if i == 0 else 80 + i) for i in range(0, 17)}


def render(toks, extended=False):
    out = []
    for t in toks:
        if t[0] == "op":
            if t[1] == 0:
                out.append("OP_0" if extended else "0")
            else:
                out.append(wire.OPNAMES[t[1]])
        elif t[0] == "push":
            if extended:
                out += ["OP_PUSH", str(len(t[1]))] + ([t[1].hex()] if t[1] else [])
            else:
                out.append(t[1].hex())
        else:
            if extended:
                out += [wire.OPNAMES[t[1]], str(len(t[2]))] + ([t[2].hex()] if t[2] else [])
            else:
                out.append(t[2].hex())
    return out


def parse_token(tok):
    """-> token tuple, or None if the token is not an opcode name, a documented numeric alias or even-length hex"""
    if tok in ALIASES:
        return ("op", ALIASES[tok])
    if tok in NAME2OP:
        return ("op", NAME2OP[tok])
    if len(tok) % 2 == 0 and tok and all(c in "0123456789abcdefABCDEF" for c in tok):
        d = bytes.fromhex(tok)
        n = len(d)
        if n <= 75:
            return ("push", d)
        return ("pd", 76 if n <= 0xFF else 77 if n <= 0xFFFF else 78, d)
    return None


def parse(text):
    toks = []
    for w in text.split():
        t = parse_token(w)
        if t is None:
            return None
        toks.append(t)
    return toks
