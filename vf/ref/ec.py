"""Independent secp256k1 / ECDSA / RFC 6979 / DER reference (pure Python ints; shares nothing with the library or its crates)."""
import hashlib
import hmac

P = 2**256 - 2**32 - 977
N = 0xFFFFFFFFFFFFFFFFFFFFFFFFFFFFFFFEBAAEDCE6AF48A03BBFD25E8CD0364141
GX = 0x79BE667EF9DCBBAC55A06295CE870B07029BFCDB2DCE28D959F2815B16F81798
GY = 0x483ADA7726A3C4655DA4FBFC0E1108A8FD17B448A68554199C47D08FFB10D4B8
G = (GX, GY)
HALF_N = N // 2


def inv(a, m):
    return pow(a, -1, m)


# Jacobian arithmetic (a = 0) -------------------------------------------------------------------
def jdbl(p):
    X, Y, Z = p
    if Y == 0 or Z == 0:
        return (0, 1, 0)
    S = 4 * X * Y * Y % P
    M = 3 * X * X % P
    X2 = (M * M - 2 * S) % P
    Y2 = (M * (S - X2) - 8 * Y * Y * Y * Y) % P
    Z2 = 2 * Y * Z % P
    return (X2, Y2, Z2)


def jadd(p, q):
    if p[2] == 0:
        return q
    if q[2] == 0:
        return p
    X1, Y1, Z1 = p
    X2, Y2, Z2 = q
    Z1Z1 = Z1 * Z1 % P
    Z2Z2 = Z2 * Z2 % P
    U1 = X1 * Z2Z2 % P
    U2 = X2 * Z1Z1 % P
    S1 = Y1 * Z2 * Z2Z2 % P
    S2 = Y2 * Z1 * Z1Z1 % P
    if U1 == U2:
        if S1 != S2:
            return (0, 1, 0)
        return jdbl(p)
    H = (U2 - U1) % P
    R = (S2 - S1) % P
    H2 = H * H % P
    H3 = H * H2 % P
    U1H2 = U1 * H2 % P
    X3 = (R * R - H3 - 2 * U1H2) % P
    Y3 = (R * (U1H2 - X3) - S1 * H3) % P
    Z3 = H * Z1 * Z2 % P
    return (X3, Y3, Z3)


def to_affine(p):
    if p[2] == 0:
        return None
    zi = inv(p[2], P)
    zi2 = zi * zi % P
    return (p[0] * zi2 % P, p[1] * zi2 * zi % P)


def to_jac(a):
    return (0, 1, 0) if a is None else (a[0], a[1], 1)


def mul(k, pt):
    """k * pt for an affine point (None = identity)"""
    k %= N
    if pt is None or k == 0:
        return None
    acc = (0, 1, 0)
    base = to_jac(pt)
    # 4-bit fixed window
    tbl = [(0, 1, 0), base]
    for _ in range(14):
        tbl.append(jadd(tbl[-1], base))
    for shift in range(252, -1, -4):
        acc = jdbl(jdbl(jdbl(jdbl(acc))))
        d = (k >> shift) & 15
        if d:
            acc = jadd(acc, tbl[d])
    return to_affine(acc)


_GT = None


def mul_g(k):
    global _GT
    k %= N
    if k == 0:
        return None
    if _GT is None:
        t = []
        p = (GX, GY, 1)
        for _ in range(256):
            a = to_affine(p)
            t.append((a[0], a[1], 1))
            p = jdbl(p)
        _GT = t
    acc = (0, 1, 0)
    i = 0
    while k:
        if k & 1:
            acc = jadd(acc, _GT[i])
        k >>= 1
        i += 1
    return to_affine(acc)


def add(a, b):
    return to_affine(jadd(to_jac(a), to_jac(b)))


def on_curve(pt):
    return pt is not None and 0 <= pt[0] < P and 0 <= pt[1] < P and (pt[1] * pt[1] - pt[0] * pt[0] * pt[0] - 7) % P == 0


def lift_x(x, odd):
    if not 0 <= x < P:
        return None
    y2 = (pow(x, 3, P) + 7) % P
    y = pow(y2, (P + 1) // 4, P)
    if y * y % P != y2:
        return None
    if (y & 1) != (1 if odd else 0):
        y = P - y
    return (x, y)


def ser(pt, compressed=True):
    if compressed:
        return bytes([2 + (pt[1] & 1)]) + pt[0].to_bytes(32, "big")
    return b"\x04" + pt[0].to_bytes(32, "big") + pt[1].to_bytes(32, "big")


def parse_pub(b):
    """strict SEC1 for 02/03/04 tags: returns affine point or None (tag, length, range, curve equation)"""
    if len(b) == 33 and b[0] in (2, 3):
        return lift_x(int.from_bytes(b[1:], "big"), b[0] == 3)
    if len(b) == 65 and b[0] == 4:
        pt = (int.from_bytes(b[1:33], "big"), int.from_bytes(b[33:], "big"))
        return pt if on_curve(pt) else None
    return None


def pubkey(x, compressed=True):
    return ser(mul_g(x), compressed)


# RFC 6979 --------------------------------------------------------------------------------------
def bits2octets(h1):
    z = int.from_bytes(h1, "big") % N
    return z.to_bytes(32, "big")


def rfc6979(x, h1, extra=b""):
    """HMAC-SHA256 DRBG nonce for key x and 32-byte hash h1 (RFC 6979 §3.2, qlen = hlen = 256)"""
    bx = x.to_bytes(32, "big") + bits2octets(h1) + extra
    V = b"\x01" * 32
    K = b"\x00" * 32
    K = hmac.new(K, V + b"\x00" + bx, hashlib.sha256).digest()
    V = hmac.new(K, V, hashlib.sha256).digest()
    K = hmac.new(K, V + b"\x01" + bx, hashlib.sha256).digest()
    V = hmac.new(K, V, hashlib.sha256).digest()
    while True:
        V = hmac.new(K, V, hashlib.sha256).digest()
        k = int.from_bytes(V, "big")
        if 1 <= k < N:
            return k
        K = hmac.new(K, V + b"\x00", hashlib.sha256).digest()
        V = hmac.new(K, V, hashlib.sha256).digest()


def sign_with_k(x, z, k):
    """-> (r, s, y_odd, x_reduced) after low-S normalisation; None if degenerate"""
    R = mul_g(k)
    if R is None:
        return None
    r = R[0] % N
    if r == 0:
        return None
    s = inv(k, N) * (z + r * x) % N
    if s == 0:
        return None
    y_odd = bool(R[1] & 1)
    if s > HALF_N:
        s = N - s
        y_odd = not y_odd
    return (r, s, y_odd, R[0] >= N)


def sign_det(x, digest, kdigest=None):
    z = int.from_bytes(digest, "big") % N
    k = rfc6979(x, kdigest if kdigest is not None else digest)
    return sign_with_k(x, z, k)


def verify(Q, z, r, s):
    if not (1 <= r < N and 1 <= s < N) or Q is None:
        return False
    w = inv(s, N)
    u1 = z * w % N
    u2 = r * w % N
    Rp = add(mul_g(u1), mul(u2, Q))
    return Rp is not None and Rp[0] % N == r


def recover(z, r, s, y_odd, x_reduced):
    if not (1 <= r < N and 1 <= s < N):
        return None
    x = r + (N if x_reduced else 0)
    R = lift_x(x, y_odd)
    if R is None:
        return None
    ri = inv(r, N)
    # Q = r^-1 (s R - z G)
    sR = mul(s, R)
    zG = mul_g((-z) % N)
    return mul(ri, add(sR, zG))


# DER -------------------------------------------------------------------------------------------
def der_int(v):
    b = v.to_bytes((v.bit_length() + 7) // 8 or 1, "big")
    if b[0] & 0x80:
        b = b"\x00" + b
    return b"\x02" + bytes([len(b)]) + b


def der_encode(r, s):
    body = der_int(r) + der_int(s)
    return b"\x30" + bytes([len(body)]) + body


def der_parse_strict(b):
    """BIP66-strict DER for an ECDSA (r, s) pair; additionally 1 <= r,s < n. Returns (r, s) or None."""
    if len(b) < 8 or len(b) > 72 or b[0] != 0x30 or b[1] != len(b) - 2:
        return None
    if b[2] != 0x02:
        return None
    lr = b[3]
    if lr == 0 or 5 + lr >= len(b):
        return None
    if b[4 + lr] != 0x02:
        return None
    ls = b[5 + lr]
    if ls == 0 or lr + ls + 6 != len(b):
        return None
    rb = b[4 : 4 + lr]
    sb = b[6 + lr :]
    for x in (rb, sb):
        if x[0] & 0x80:
            return None
        if len(x) > 1 and x[0] == 0 and not (x[1] & 0x80):
            return None
    r = int.from_bytes(rb, "big")
    s = int.from_bytes(sb, "big")
    if not (1 <= r < N and 1 <= s < N):
        return None
    return (r, s)


def selftest():
    # generator multiples (well-known)
    assert mul_g(1) == G
    assert mul_g(2) == (0xC6047F9441ED7D6D3045406E95C07CD85C778E4B8CEF3CA7ABAC09B95C709EE5, 0x1AE168FEA63DC339A3C58419466CEAEEF7F632653266D0E1236431A950CFE52A)
    assert mul_g(3)[0] == 0xF9308A019258C31049344F85F89D5229B531C845836F99B08601F113BCE036F9
    assert mul_g(N - 1) == (GX, P - GY)
    assert mul(5, mul_g(7)) == mul_g(35) and add(mul_g(5), mul_g(9)) == mul_g(14)
    assert on_curve(mul_g(0xDEADBEEF)) and mul(N, G) is None
    # RFC 6979-style known answers for secp256k1 (widely published test vectors; SHA-256)
    x = 1
    r, s, _, _ = sign_det(x, hashlib.sha256(b"Satoshi Nakamoto").digest())
    assert rfc6979(1, hashlib.sha256(b"Satoshi Nakamoto").digest()) == 0x8F8A276C19F4149656B280621E358CCE24F5F52542772691EE69063B74F15D15
    assert (r, s) == (0x934B1EA10A4B3C1757E2B0C017D0B6143CE3C9A7E6A4A49860D7A6AB210EE3D8, 0x2442CE9D2B916064108014783E923EC36B49743E2FFA1C4496F01A512AAFD9E5)
    k2 = rfc6979(N - 1, hashlib.sha256(b"Satoshi Nakamoto").digest())
    assert k2 == 0x33A19B60E25FB6F4435AF53A3D42D493644827367E6453928554F43E49AA6F90
    r, s, _, _ = sign_det(N - 1, hashlib.sha256(b"Satoshi Nakamoto").digest())
    assert (r, s) == (0xFD567D121DB66E382991534ADA77A6BD3106F0A1098C231E47993447CD6AF2D0, 0x6B39CD0EB1BC8603E159EF5C20A5C8AD685A45B06CE9BEBED3F153D10D93BED5)
    # verify / recover consistency
    z = int.from_bytes(hashlib.sha256(b"abc").digest(), "big")
    xk = 0x1234567890ABCDEF1234567890ABCDEF1234567890ABCDEF1234567890ABCDEF
    r, s, yo, xr = sign_with_k(xk, z, 0xFEEDFACE)
    Q = mul_g(xk)
    assert verify(Q, z, r, s) and not verify(Q, z + 1, r, s) and recover(z, r, s, yo, xr) == Q
    assert der_parse_strict(der_encode(r, s)) == (r, s)
    assert der_parse_strict(der_encode(r, s) + b"\x00") is None and der_parse_strict(b"") is None
    assert parse_pub(ser(Q)) == Q and parse_pub(ser(Q, False)) == Q and parse_pub(b"\x02" + (5).to_bytes(32, "big")) is None
