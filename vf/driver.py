"""Supervisor side of the bsvdrv protocol: build the driver from /repo's current tree, run it as a child,
attribute process deaths / guard trips / watchdog expiries to the single in-flight request, restart transparently."""
import json
import os
import select
import signal
import subprocess
import sys
import time

VERIF = os.path.dirname(os.path.dirname(os.path.abspath(__file__)))
HARNESS = os.path.join(VERIF, "harness")

BUILDS = {
    # name: (cargo args, env additions, binary path relative to HARNESS)
    "chk": (["cargo", "build", "--profile", "chk"], {}, "target/chk/bsvdrv"),
    "rel": (["cargo", "build", "--profile", "rel"], {}, "target/rel/bsvdrv"),
    "asan": (
        ["cargo", "+nightly", "build", "--profile", "chk", "--target", "x86_64-unknown-linux-gnu", "--target-dir", "target-asan"],
        {"RUSTFLAGS": "--cfg bsv_verif -Zsanitizer=address -Cforce-frame-pointers=yes"},
        "target-asan/x86_64-unknown-linux-gnu/chk/bsvdrv",
    ),
}


class BuildError(Exception):
    pass


def build(name="chk", quiet=True):
    """(Re)build the driver against /repo's current working tree. cargo is a no-op when nothing changed."""
    args, env_add, rel = BUILDS[name]
    env = dict(os.environ)
    env["CARGO_NET_OFFLINE"] = "true"
    env.update(env_add)
    t0 = time.time()
    p = subprocess.run(args, cwd=HARNESS, env=env, stdout=subprocess.PIPE, stderr=subprocess.STDOUT, text=True)
    if p.returncode != 0:
        raise BuildError("driver build '%s' failed:\n%s" % (name, p.stdout[-6000:]))
    path = os.path.join(HARNESS, rel)
    if not os.path.exists(path):
        raise BuildError("driver binary missing after build: %s" % path)
    if not quiet:
        print("[build %s] ok in %.1fs" % (name, time.time() - t0), file=sys.stderr)
    return path


def binary(name="chk"):
    return os.path.join(HARNESS, BUILDS[name][2])


class Driver:
    """One child process. call() is synchronous; exactly one request is in flight, so a death is attributable."""

    def __init__(self, build_name="chk", watchdog=180.0, env=None):
        self.build_name = build_name
        self.path = binary(build_name)
        self.watchdog = watchdog
        self.extra_env = env or {}
        self.p = None
        self.next_id = 1
        self.deaths = 0
        self.restarts = 0
        self.buf = b""

    def _start(self):
        env = dict(os.environ)
        env.update(self.extra_env)
        if self.build_name == "asan":
            # instrumented frames are several times larger: the sanitizer build keeps an 8 MiB worker stack so that "deep" means the same inputs
            env.setdefault("BSVDRV_STACK", str(8 << 20))
            env.setdefault("ASAN_OPTIONS", "detect_leaks=0:halt_on_error=1:abort_on_error=0:exitcode=99:allocator_may_return_null=1:max_allocation_size_mb=4096")
        self.p = subprocess.Popen([self.path], stdin=subprocess.PIPE, stdout=subprocess.PIPE, stderr=subprocess.PIPE if self.build_name == "asan" else subprocess.DEVNULL, env=env, bufsize=0)
        self.buf = b""
        self.restarts += 1

    def close(self):
        if self.p is not None:
            try:
                self.p.stdin.close()
            except Exception:
                pass
            try:
                self.p.wait(timeout=5)
            except Exception:
                self.p.kill()
                self.p.wait()
            self.p = None

    def _readline(self, deadline):
        while True:
            nl = self.buf.find(b"\n")
            if nl >= 0:
                line = self.buf[:nl]
                self.buf = self.buf[nl + 1 :]
                return line
            left = deadline - time.time()
            if left <= 0:
                return "timeout"
            r, _, _ = select.select([self.p.stdout], [], [], min(left, 1.0))
            if r:
                chunk = os.read(self.p.stdout.fileno(), 1 << 20)
                if not chunk:
                    return None  # EOF: child died
                self.buf += chunk

    def call(self, req, watchdog=None, auto_guard=None):
        """Returns the response dict. Always contains exactly one of: ok, err, panic, drv_err, alloc_guard, death, timeout."""
        if self.p is None or self.p.poll() is not None:
            self._start()
        rid = self.next_id
        self.next_id += 1
        req = dict(req)
        req["id"] = rid
        js = json.dumps(req, separators=(",", ":"))
        if auto_guard is not None and "guard" not in req:
            # default allocation guard: generous for every legitimate operation (a fixed base plus a multiple of the request size), but it
            # turns a declared-length allocation bomb into a deterministic observation instead of a multi-GiB memset
            js = js[:-1] + ',"guard":%d}' % (auto_guard[0] + auto_guard[1] * len(js))
        data = (js + "\n").encode()
        try:
            self.p.stdin.write(data)
            self.p.stdin.flush()
        except (BrokenPipeError, OSError):
            return self._dead(rid)
        # generous wall-clock watchdog (its firing is only ever "inconclusive"): grows with the request size, because a loaded machine
        # needs seconds just to move and hex-decode a multi-megabyte request
        line = self._readline(time.time() + (watchdog or self.watchdog) + len(data) / 20000.0)
        if line == "timeout":
            try:
                self.p.kill()
                self.p.wait()
            except Exception:
                pass
            self.p = None
            return {"id": rid, "timeout": True}
        if line is None:
            return self._dead(rid)
        try:
            resp = json.loads(line)
        except Exception as e:
            return {"id": rid, "drv_err": "unparseable response: %r (%s)" % (line[:200], e)}
        if "alloc_guard" in resp:
            # the child _exit(86)s right after this line
            try:
                self.p.wait(timeout=5)
            except Exception:
                self.p.kill()
                self.p.wait()
            self.p = None
            self.deaths += 1
            return resp
        if resp.get("id") != rid:
            return {"id": rid, "drv_err": "response id mismatch: %r" % (resp,)}
        return resp

    def _dead(self, rid):
        self.deaths += 1
        code = None
        err = ""
        try:
            code = self.p.wait(timeout=10)
            if self.p.stderr is not None:
                err = self.p.stderr.read().decode("utf8", "replace")
                if len(err) > 5000:
                    err = err[:2000] + "\n...[cut]...\n" + err[-2500:]
        except Exception:
            try:
                self.p.kill()
                self.p.wait()
            except Exception:
                pass
        self.p = None
        d = {"code": code}
        if code is not None and code < 0:
            try:
                d["signal"] = signal.Signals(-code).name
            except Exception:
                d["signal"] = str(-code)
        if err:
            d["stderr"] = err
        return {"id": rid, "death": d}


def outcome(resp):
    for k in ("ok", "err", "panic", "alloc_guard", "death", "timeout", "drv_err"):
        if k in resp:
            return k
    return "drv_err"
