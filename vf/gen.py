"""Seeded, boundary-heavy generators shared by the monitors."""
from .ref import wire

B32 = [0, 1, 2, 0x7F, 0x80, 0xFC, 0xFD, 0xFE, 0xFF, 0x100, 0xFFFE, 0xFFFF, 0x10000, 0x10001, 2**31 - 1, 2**31, 2**32 - 2, 2**32 - 1, 0x01020304, 0xA1B2C3D4, 0xFFFFFFFE]
B64 = B32 + [2**32, 2**32 + 1, 2**63 - 1, 2**63, 2**64 - 2, 2**64 - 1, 0x0102030405060708, 0xF1E2D3C4B5A69788]
PUSH_LENS = [0, 1, 2, 3, 20, 32, 33, 65, 71, 72, 73, 74, 75, 76, 77, 254, 255, 256, 257, 520, 521]
BIG_PUSH_LENS = [65534, 65535, 65536, 65537]


def u32(r):
    return r.choice(B32) if r.random() < 0.5 else r.getrandbits(32)


def u64(r):
    return r.choice(B64) if r.random() < 0.5 else r.getrandbits(64)


def rbytes(r, n):
    return r.getrandbits(8 * n).to_bytes(n, "big") if n else b""


def push_tok(r, ln, minimal=True):
    data = rbytes(r, ln)
    if minimal:
        if ln == 0:
            return ("op", 0)
        if ln <= 75:
            return ("push", data)
        return ("pd", 76 if ln <= 0xFF else 77 if ln <= 0xFFFF else 78, data)
    # any form that can carry it
    forms = []
    if 1 <= ln <= 75:
        forms.append(("push", data))
    if ln <= 0xFF:
        forms.append(("pd", 76, data))
    if ln <= 0xFFFF:
        forms.append(("pd", 77, data))
    forms.append(("pd", 78, data))
    return r.choice(forms)


def gen_tokens(r, n_tokens, depth=3, minimal=True, opcodes=None, push_lens=None, openers=(99, 100, 101, 102), p_push=0.35, p_if=0.12):
    """Flat token list drawn from the accepted grammar (balanced conditionals, complete pushes, known opcodes)."""
    opcodes = opcodes or wire.PLAIN_OPCODES
    push_lens = push_lens or PUSH_LENS
    out = []
    budget = [n_tokens]

    def body(d):
        n = r.choice([0, 0, 1, 1, 2, 3, 5]) if d > 0 else budget[0]
        k = 0
        while k < n and budget[0] > 0:
            k += 1
            budget[0] -= 1
            x = r.random()
            if x < p_if and d < depth:
                out.append(("op", r.choice(openers)))
                body(d + 1)
                if r.random() < 0.5:
                    out.append(("op", 103))
                    body(d + 1)
                out.append(("op", 104))
            elif x < p_if + p_push:
                ln = r.choice(push_lens) if r.random() < 0.7 else r.randrange(0, 80)
                out.append(push_tok(r, ln, minimal))
            else:
                out.append(("op", r.choice(opcodes)))

    body(0)
    return out


def gen_script(r, n_tokens=None, **kw):
    if n_tokens is None:
        n_tokens = r.choice([0, 1, 2, 3, 5, 8, 13, 25])
    return wire.detok(gen_tokens(r, n_tokens, **kw))


def gen_txin(r, script=None, coinbase=False):
    if coinbase:
        return {"txid_wire": b"\x00" * 32, "vout": 0xFFFFFFFF, "script": script if script is not None else rbytes(r, r.choice([0, 1, 2, 4, 50, 100])), "seq": u32(r)}
    txid = rbytes(r, 32)
    return {"txid_wire": txid, "vout": u32(r), "script": script if script is not None else gen_script(r), "seq": u32(r)}


def gen_txout(r, script=None):
    return {"value": u64(r), "script": script if script is not None else gen_script(r)}


def gen_tx(r, n_in=None, n_out=None, coinbase=None, script_kw=None):
    script_kw = script_kw or {}
    if n_in is None:
        n_in = r.choice([0, 1, 1, 1, 2, 3, 4, 8])
    if n_out is None:
        n_out = r.choice([0, 1, 1, 2, 3, 4, 8])
    if coinbase is None:
        coinbase = r.random() < 0.1
    ins = []
    for k in range(n_in):
        cb = coinbase and (k == 0 or r.random() < 0.2)
        ins.append(gen_txin(r, coinbase=cb) if cb else gen_txin(r, script=gen_script(r, **script_kw)))
    outs = [gen_txout(r, script=gen_script(r, **script_kw)) for _ in range(n_out)]
    return {"version": u32(r), "ins": ins, "outs": outs, "locktime": u32(r)}


def mutate(r, b, n=1):
    """hostile byte-level mutation of an encoding"""
    b = bytearray(b)
    for _ in range(n):
        if not b:
            b += rbytes(r, r.randrange(1, 4))
            continue
        k = r.randrange(8)
        p = r.randrange(len(b))
        if k == 0:
            b[p] ^= 1 << r.randrange(8)
        elif k == 1:
            b[p] = r.choice([0, 1, 0x4B, 0x4C, 0x4D, 0x4E, 0x7F, 0x80, 0xFC, 0xFD, 0xFE, 0xFF, 99, 100, 103, 104])
        elif k == 2:
            del b[p]
        elif k == 3:
            b[p:p] = rbytes(r, r.randrange(1, 5))
        elif k == 4:
            del b[p:]
        elif k == 5:
            q = r.randrange(len(b))
            lo, hi = min(p, q), max(p, q)
            b[lo:hi] = b[lo:hi][::-1] if r.random() < 0.3 else b[lo:hi] * 2
        elif k == 6:
            b[p:p] = r.choice([b"\xfd\xff\xff", b"\xfe\xff\xff\xff\xff", b"\xff" + b"\xff" * 8, b"\xfd\x01\x00", b"\x4e\xff\xff\xff\x7f", b"\x4d\xff\xff", b"\x4c\xff"])
        else:
            b += rbytes(r, r.randrange(1, 9))
    return bytes(b)


def shard_slice(items, shard, nshards):
    return items[shard::nshards]
