"""C20 — AES-CBC/CTR: decryption inverts encryption; output equals standard AES."""
from .. import gen
from ..ref import aes

ID = "C20"
RULE = (
    "cases: four modes x every message length 0..80 (thorough 0..300) and {255,256,4095,4096,40000}; random keys/IVs; CTR IVs placed so the low 64 counter bits "
    "carry across every byte boundary (but never wrap 2^64) within the message; CBC ciphertext truncations, zero length, and every invalid PKCS#7 tail crafted with the "
    "reference's raw CBC. non-trivial = distinct case with a non-empty message"
)
ASSUMPTIONS = ["reference AES written from FIPS-197, self-tested against FIPS-197 appendix C and SP 800-38A vectors (and the openssl CLI when present)"]
NSHARDS = {"quick": 16, "thorough": 32}
BUDGET_S = {"quick": 200, "thorough": 1500}
MIN_HITS = {
    'quick': {"enc": 547, "dec": 547, "ctr_carry": 44, "bad_pad": 1792, "bad_len": 2209},
    'thorough': {"enc": 46581, "dec": 46581, "ctr_carry": 1934, "bad_pad": 107520, "bad_len": 12630},
}
MODES = {"128cbc": 16, "256cbc": 32, "128ctr": 16, "256ctr": 32}


def selftest():
    aes.selftest()


def cases(ctx):
    r = ctx.rnd
    S, N = ctx.shard, ctx.nshards
    t = ctx.tier == "thorough"
    k = 0
    lens = list(range(0, (301 if t else 81))) + [255, 256, 4095, 4096, 40000]
    for rep in range(60 if t else 1):
        for L in lens:
            for mode, kl in MODES.items():
                k += 1
                if k % N != S:
                    continue
                yield {"k": "rt", "mode": mode, "key": gen.rbytes(r, kl).hex(), "iv": gen.rbytes(r, 16).hex(), "msg": gen.rbytes(r, L).hex()}
    # messages that END in a well-formed PKCS#7 padding run (n bytes of value n), block-aligned or not; and misaligned argument slices
    for mode, kl in MODES.items():
        for nrun in list(range(1, 17)) + [32]:
            k += 1
            if k % N != S:
                continue
            for total in (16, 32, 48, 31, 17):
                if total < min(nrun, 16):
                    continue
                m = gen.rbytes(r, max(0, total - nrun)) + bytes([nrun & 0xFF if nrun <= 16 else 16]) * nrun
                m = m[-total:] if len(m) > total else m
                yield {"k": "rt", "mode": mode, "key": gen.rbytes(r, kl).hex(), "iv": gen.rbytes(r, 16).hex(), "msg": m.hex(), "rel": "message_ends_in_padding_run"}
        for off in (1, 2, 3, 4, 5, 7, 8, 9, 15):
            k += 1
            if k % N != S:
                continue
            for L in (15, 16, 17, 33, 64, 100):
                yield {"k": "rt", "mode": mode, "key": gen.rbytes(r, kl).hex(), "iv": gen.rbytes(r, 16).hex(), "msg": gen.rbytes(r, L).hex(), "misalign": off}
    if S == 0:
        ctx.exhaustive.append("every message length 0..%d in each of the four modes" % (300 if t else 80))
    # CTR carries: low 64 bits end in ff..ff at every byte position, message long enough to cross it
    for pos in range(1, 9):
        for mode in ("128ctr", "256ctr"):
            for rep in range(200 if t else 4):
                k += 1
                if k % N != S:
                    continue
                low = ((1 << (8 * pos)) - 1) - r.randrange(0, 3)
                if pos == 8:
                    low = (1 << 64) - 1 - r.randrange(4, 8)  # never wraps within 4 blocks
                hi = r.getrandbits(64)
                mid = r.getrandbits(64 - 8 * pos) << (8 * pos) if pos < 8 else 0
                if pos < 8:
                    mid &= ~(1 << 63) & ((1 << 64) - 1)  # the low 64 bits must not wrap within the message (outside the claimed domain)
                iv = ((hi << 64) | ((mid | low) & ((1 << 64) - 1))).to_bytes(16, "big")
                nblocks = 4 if pos == 8 else 6
                yield {"k": "rt", "mode": mode, "key": gen.rbytes(r, MODES[mode]).hex(), "iv": iv.hex(), "msg": gen.rbytes(r, 16 * nblocks - r.randrange(0, 16)).hex(), "carry": pos}
    # CTR: the LAST block of the message uses low-64 counter value 2^64-1 exactly (the message itself never wraps)
    for nblocks in (1, 2, 3, 5):
        for mode in ("128ctr", "256ctr"):
            for tail in (0, 1, 15):
                k += 1
                if k % N != S:
                    continue
                iv = ((r.getrandbits(64) << 64) | ((1 << 64) - nblocks)).to_bytes(16, "big")
                yield {"k": "rt", "mode": mode, "key": gen.rbytes(r, MODES[mode]).hex(), "iv": iv.hex(), "msg": gen.rbytes(r, 16 * nblocks - tail).hex(), "carry": 9}
    # degenerate but valid key / IV relations
    for mode, kl in MODES.items():
        for rel in ("key_eq_iv", "zero", "iv_eq_key_prefix", "ff"):
            k += 1
            if k % N != S:
                continue
            key = gen.rbytes(r, kl)
            if rel == "key_eq_iv":
                key = gen.rbytes(r, 16) * (kl // 16)
                iv = key[:16]
            elif rel == "zero":
                key, iv = bytes(kl), bytes(16)
            elif rel == "iv_eq_key_prefix":
                iv = key[:16]
            else:
                key, iv = b"\xff" * kl, b"\xff" * 8 + bytes(8)
            for L in (0, 1, 2, 16, 33):
                yield {"k": "rt", "mode": mode, "key": key.hex(), "iv": iv.hex(), "msg": gen.rbytes(r, L).hex(), "rel": rel}
    # CTR keystreams that START with zero bytes: the ciphertext of a short message equals the message (searched with the reference)
    if S in (0, 1):
        mode = ("128ctr", "256ctr")[S]
        key = gen.rbytes(r, MODES[mode])
        rk = aes.expand_key(key)
        found1 = found2 = None
        hi = r.getrandbits(64)
        for c in range(1, 400000):
            iv = ((hi << 64) | c).to_bytes(16, "big")
            ks = aes.enc_block(rk, iv)
            if ks[0] == 0 and found1 is None:
                found1 = iv
            if ks[0] == 0 and ks[1] == 0:
                found2 = iv
                break
        for iv in (found1, found2):
            if iv is not None:
                for L in (1, 2, 3, 17):
                    yield {"k": "rt", "mode": mode, "key": key.hex(), "iv": iv.hex(), "msg": gen.rbytes(r, L).hex(), "rel": "keystream_starts_with_zero"}
    # long messages, generated inside the driver (byte i = 31*i+7 mod 256); the ciphertext comes back as length + SHA-256 + byte sum +
    # head + tail and is compared with the reference ciphertext's
    bi = 0
    for L in [(1 << 16) + 7, (1 << 20) + 5] + ([(1 << 22) + 1] if t else []):
        for mode, kl in MODES.items():
            bi += 1
            if bi % N == S:
                yield {"k": "big", "mode": mode, "key": gen.rbytes(r, kl).hex(), "iv": (gen.rbytes(r, 12) + b"\xff\xff\xff" + bytes([r.randrange(200, 256)])).hex(), "len": L}
    # call SEQUENCES on one thread with structured keys that agree in folds / halves / words (state kept between calls, keyed on
    # part of the key only, shows as a wrong ciphertext for the later key)
    for mode, kl in MODES.items():
        k += 1
        if k % N != S and not t:
            continue
        w1, w2, w3, w4 = (gen.rbytes(r, 8) for _ in range(4))
        if kl == 16:
            fam = [bytes(16), b"\xff" * 16, w1 * 2, w2 * 2, w1 + w2, w2 + w1, bytes(x ^ 0xFF for x in w1 + w2), w3 + w3, bytes(8) + w1, w1 + bytes(8)]
        else:
            fam = [bytes(32), b"\xff" * 32, w1 * 4, w2 * 4, w1 + w2 + w3 + w4, w2 + w1 + w4 + w3, w4 + w3 + w2 + w1, w1 + w1 + w2 + w2, w2 + w2 + w1 + w1, (w1 + w2) * 2, (w2 + w1) * 2, bytes(x ^ 0xFF for x in w1 + w2 + w3 + w4)]
        r.shuffle(fam)
        iv = gen.rbytes(r, 16)
        yield {"k": "seq", "mode": mode, "keys": [x.hex() for x in fam], "iv": iv.hex(), "msg": gen.rbytes(r, r.choice([1, 16, 33, 64])).hex(), "same_iv": True}
        yield {"k": "seq", "mode": mode, "keys": [x.hex() for x in fam[::-1]], "iv": iv.hex(), "msg": gen.rbytes(r, 20).hex(), "same_iv": False}
    # messages whose FIRST ciphertext block equals the IV (m1 = D_k(IV) xor IV; found with the reference), and whose second block equals
    # the first: a decoder that looks for an IV copied in front of the ciphertext must not eat genuine data
    for mode in ("128cbc", "256cbc"):
        k += 1
        if k % N != S and not t:
            continue
        key_, iv_ = gen.rbytes(r, MODES[mode]), gen.rbytes(r, 16)
        rk_ = aes.expand_key(key_)
        m1 = bytes(x ^ y for x, y in zip(aes.dec_block(rk_, iv_), iv_))
        for rest in (b"", gen.rbytes(r, 5), gen.rbytes(r, 16), gen.rbytes(r, 40)):
            yield {"k": "rt", "mode": mode, "key": key_.hex(), "iv": iv_.hex(), "msg": (m1 + rest).hex(), "rel": "first_block_equals_iv"}
        # second ciphertext block equal to the first: m2 = D_k(c1) xor c1
        c1 = aes.cbc_encrypt_raw(key_, iv_, m1[:16]) if hasattr(aes, "cbc_encrypt_raw") else None
        if c1:
            m2 = bytes(x ^ y for x, y in zip(aes.dec_block(rk_, c1[:16]), c1[:16]))
            yield {"k": "rt", "mode": mode, "key": key_.hex(), "iv": iv_.hex(), "msg": (m1 + m2 + gen.rbytes(r, 3)).hex(), "rel": "first_block_equals_iv"}
    # several threads encrypting with DIFFERENT keys at the same time (process-wide state guarded by a check-then-use window)
    if S % 4 == 1 or t:
        items = []
        for mode, kl in MODES.items():
            for _ in range(3):
                key_, iv_, m_ = gen.rbytes(r, kl), gen.rbytes(r, 16), gen.rbytes(r, r.choice([5, 16, 33]))
                items.append({"mode": mode, "key": key_.hex(), "iv": iv_.hex(), "msg": m_.hex()})
        yield {"k": "threads", "mode": "all", "iv": "00" * 16, "items": items, "threads": 8, "iters": 20000 if t else 4000}
    # CBC chaining by the caller: the IV of each call is the last ciphertext block of the previous call on the same thread
    for mode in ("128cbc", "256cbc"):
        k += 1
        if k % N != S and not t:
            continue
        yield {"k": "chain", "mode": mode, "key": gen.rbytes(r, MODES[mode]).hex(), "iv": gen.rbytes(r, 16).hex(), "msgs": [gen.rbytes(r, r.choice([0, 5, 16, 40])).hex() for _ in range(5)]}
    # CBC rejection cases
    for mode in ("128cbc", "256cbc"):
        for L in (0, 1, 15, 16, 17, 31, 32, 47):
            for rep in range(200 if t else 2):
                k += 1
                if k % N != S:
                    continue
                key, iv = gen.rbytes(r, MODES[mode]), gen.rbytes(r, 16)
                # every invalid padding tail for this length class
                m = gen.rbytes(r, L)
                yield {"k": "badpad", "mode": mode, "key": key.hex(), "iv": iv.hex(), "msg": m.hex(), "seed": r.getrandbits(30)}
                ct = aes.cbc_encrypt(key, iv, m)
                for cut in {0, 1, 15, len(ct) - 1, len(ct) - 15, len(ct) - 16 + 1, len(ct) + 1}:
                    if 0 <= cut and cut % 16:
                        yield {"k": "badlen", "mode": mode, "key": key.hex(), "iv": iv.hex(), "ct": (ct + b"\x00")[:cut].hex()}
                yield {"k": "badlen", "mode": mode, "key": key.hex(), "iv": iv.hex(), "ct": ""}
                if rep == 0:
                    # a valid ciphertext followed by junk: every single byte value, and common text-transport tails
                    for junk in [bytes([b]) for b in range(256)] + [b"\r\n", b"\n\n", b"\n\r", b"  ", b"\r\n\r\n", b"=\n", b"\x00" * 15, b"\n" * 15, b"\x10" * 15]:
                        yield {"k": "badlen", "mode": mode, "key": key.hex(), "iv": iv.hex(), "ct": (ct + junk).hex(), "junk": True}
                    # a truncation that happens to END with a line-break byte
                    ct2 = bytearray(ct)
                    if len(ct2) >= 17:
                        ct2[len(ct2) - 16] = 0x0A
                        yield {"k": "badlen", "mode": mode, "key": key.hex(), "iv": iv.hex(), "ct": bytes(ct2[: len(ct2) - 15]).hex(), "junk": True}


def judge(ctx, case):
    k = case["k"]
    mode = case["mode"]
    key, iv = bytes.fromhex(case.get("key", "")), bytes.fromhex(case["iv"])
    if k == "rt":
        m = bytes.fromhex(case["msg"])
        if m:
            ctx.nontrivial()
        ctx.hit("enc")
        ctx.hit("mode_" + mode)
        if "carry" in case:
            ctx.hit("ctr_carry")
        if "rel" in case:
            ctx.hit("rel_" + case["rel"])
        if len(m) >= 4096:
            ctx.hit("len>=4096")
        mis = case.get("misalign", 0)
        if mis:
            ctx.hit("misaligned_slices")
        r = ctx.call({"op": "aes", "mode": mode, "dir": "enc", "key": case["key"], "iv": case["iv"], "msg": case["msg"], "misalign": mis})
        ctx.ev()
        exp = aes.cbc_encrypt(key, iv, m) if mode.endswith("cbc") else aes.ctr(key, iv, m)
        if r.get("ok") != exp.hex():
            ctx.viol("%s ciphertext differs from the reference%s" % (mode, " (counter carry)" if "carry" in case else " (argument slices not 8-byte aligned)" if mis else " (message ends in a padding-like run)" if case.get("rel") == "message_ends_in_padding_run" else ""), {"got": str(r.get("ok", r.get("err", r.get("panic"))))[:200], "exp": exp.hex()[:200]})
            if "ok" not in r:
                return
        ct = bytes.fromhex(r["ok"])
        ctx.ev()
        want_len = 16 * (len(m) // 16 + 1) if mode.endswith("cbc") else len(m)
        if len(ct) != want_len:
            ctx.viol("%s ciphertext length is wrong" % mode, {"len": len(ct), "want": want_len})
        r2 = ctx.call({"op": "aes", "mode": mode, "dir": "dec", "key": case["key"], "iv": case["iv"], "msg": r["ok"], "misalign": mis})
        ctx.hit("dec")
        ctx.ev()
        if r2.get("ok") != case["msg"]:
            ctx.viol("%s decrypt(encrypt(m)) != m" % mode, {"got": str(r2.get("ok", r2.get("err")))[:200]})
    elif k == "big":
        import hashlib

        n = case["len"]
        ctx.hit("long_message")
        ctx.nontrivial()
        m = (bytes((31 * i + 7) & 0xFF for i in range(256)) * (n // 256 + 1))[:n]
        exp = aes.cbc_encrypt(key, iv, m) if mode.endswith("cbc") else aes.ctr(key, iv, m)
        r = ctx.call({"op": "aes", "mode": mode, "dir": "enc", "key": case["key"], "iv": case["iv"], "msg_gen": {"len": n}, "digest_only": True, "guard": 8 * n + (64 << 20)}, watchdog=900)
        ctx.ev()
        o = r.get("ok")
        want = {"len": len(exp), "sha256": hashlib.sha256(exp).hexdigest(), "sum": sum(exp), "head": exp[:32].hex(), "tail": exp[-32:].hex()}
        if o != want:
            ctx.viol("%s ciphertext of a long message differs from the reference (%s)" % (mode, "length" if not isinstance(o, dict) or o.get("len") != want["len"] else "head" if o.get("head") != want["head"] else "later blocks"), {"len": n, "got": str(o)[:300], "want": str(want)[:300]})
    elif k == "threads":
        ctx.hit("concurrent_threads")
        ctx.nontrivial()
        items = []
        for it in case["items"]:
            kb, ib, mb = bytes.fromhex(it["key"]), bytes.fromhex(it["iv"]), bytes.fromhex(it["msg"])
            exp = aes.cbc_encrypt(kb, ib, mb) if it["mode"].endswith("cbc") else aes.ctr(kb, ib, mb)
            items.append(dict(it, exp=exp.hex()))
        r = ctx.call({"op": "aes_mt", "items": items, "threads": case["threads"], "iters": case["iters"]}, watchdog=600)
        ctx.ev()
        if "ok" not in r:
            ctx.viol("concurrent encryption could not be executed", {"resp": str(r)[:300]})
        elif r["ok"]["mismatches"]:
            ctx.viol("ciphertext differs from the reference when several threads encrypt with different keys at the same time", {"mismatches": r["ok"]["mismatches"], "calls": r["ok"]["calls"], "first": r["ok"]["first"]})
        else:
            ctx.maxstat("concurrent_calls_observed", r["ok"]["calls"])
    elif k == "chain":
        ctx.hit("caller_chained_iv")
        ctx.nontrivial()
        ivj = iv
        for j, mh in enumerate(case["msgs"]):
            mj = bytes.fromhex(mh)
            r = ctx.call({"op": "aes", "mode": mode, "dir": "enc", "key": case["key"], "iv": ivj.hex(), "msg": mh})
            ctx.ev()
            exp = aes.cbc_encrypt(key, ivj, mj)
            if r.get("ok") != exp.hex():
                ctx.viol("%s ciphertext differs from the reference when the IV is the last ciphertext block of the previous call (call %s)" % (mode, "1" if j == 0 else ">=2"), {"j": j, "got": str(r.get("ok", r.get("err")))[:100], "exp": exp.hex()[:100]})
                return
            r2 = ctx.call({"op": "aes", "mode": mode, "dir": "dec", "key": case["key"], "iv": ivj.hex(), "msg": r["ok"]})
            ctx.ev()
            if r2.get("ok") != mh:
                ctx.viol("%s decrypt(encrypt(m)) != m in a caller-chained sequence" % mode, {"j": j})
            ivj = exp[-16:]
    elif k == "seq":
        m = bytes.fromhex(case["msg"])
        ctx.hit("key_sequence")
        ctx.nontrivial()
        for j, kh in enumerate(case["keys"]):
            kb = bytes.fromhex(kh)
            ivj = iv if case["same_iv"] else bytes((x + j) & 0xFF for x in iv)
            vi = bool(j & 1)
            r = ctx.call({"op": "aes", "mode": mode, "dir": "enc", "key": kh, "iv": ivj.hex(), "msg": case["msg"], "via_impl": vi})
            ctx.ev()
            exp = aes.cbc_encrypt(kb, ivj, m) if mode.endswith("cbc") else aes.ctr(kb, ivj, m)
            if r.get("ok") != exp.hex():
                ctx.viol("%s ciphertext differs from the reference for the %s key of a call sequence with structured keys" % (mode, "first" if j == 0 else "second or later"), {"j": j, "key": kh, "got": str(r.get("ok", r.get("err")))[:100], "exp": exp.hex()[:100]})
                continue
            r2 = ctx.call({"op": "aes", "mode": mode, "dir": "dec", "key": kh, "iv": ivj.hex(), "msg": r["ok"], "via_impl": not vi})
            ctx.ev()
            if r2.get("ok") != case["msg"]:
                ctx.viol("%s decrypt(encrypt(m)) != m inside a call sequence with structured keys" % mode, {"j": j})
    elif k == "badpad":
        m = bytes.fromhex(case["msg"])
        ctx.nontrivial()
        # craft plaintexts whose final block has an invalid PKCS#7 tail, encrypt with raw CBC
        import random

        rr = random.Random(case["seed"])
        body = m + rr.getrandbits(8 * ((-len(m)) % 16 or 16)).to_bytes(((-len(m)) % 16 or 16), "big")
        tails = []
        for n in (0, 17, 18, 0x80, 0xFF):
            tails.append(body[:-1] + bytes([n]))
        for n in range(2, 17):
            # says n but one of the n bytes is wrong
            blk = bytearray(body[:-n] + bytes([n]) * n)
            blk[len(blk) - n + rr.randrange(n - 1)] ^= rr.randrange(1, 256)
            tails.append(bytes(blk))
        # says n, but TWO (or three) of the n bytes are wrong in ways that keep their sum / xor / product-of-counts unchanged
        for n in range(3, 17):
            blk = bytearray(body[:-n] + bytes([n]) * n)
            i1, i2 = rr.sample(range(len(blk) - n, len(blk) - 1), 2)
            d = rr.randrange(1, n + 1)
            blk[i1] = (n + d) & 0xFF
            blk[i2] = (n - d) & 0xFF
            tails.append(bytes(blk))  # sum preserved
            blk = bytearray(body[:-n] + bytes([n]) * n)
            blk[i1] ^= 0x40
            blk[i2] ^= 0x40
            tails.append(bytes(blk))  # xor preserved
        # padding runs LONGER than a block (17..255 bytes of that value, spanning several blocks) are not PKCS#7 for a 16-byte block
        for n in (17, 18, 31, 32, 33, 48, 64, 255):
            tot = ((n + 15) // 16) * 16 + 16
            tails.append(rr.getrandbits(8 * (tot - n)).to_bytes(tot - n, "big") + bytes([n]) * n)
        for p in tails:
            if aes.cbc_decrypt(key, iv, aes.cbc_encrypt_raw(key, iv, p)) is not None:
                continue  # accidentally valid padding
            ct = aes.cbc_encrypt_raw(key, iv, p)
            for vi in (False, True):  # both public entry points: AES::decrypt and its *_impl twin
                r = ctx.call({"op": "aes", "mode": mode, "dir": "dec", "key": case["key"], "iv": case["iv"], "msg": ct.hex(), "via_impl": vi})
                ctx.ev()
                ctx.hit("bad_pad")
                if "err" not in r:
                    ctx.viol("%s decryption accepts ciphertext with invalid PKCS#7 padding%s" % (mode, " (decrypt_impl)" if vi else ""), {"tail": p[-16:].hex(), "resp": str(r.get("ok", r.get("panic")))[:100]})
    elif k == "badlen":
        ctx.hit("bad_len")
        if case.get("junk"):
            ctx.hit("valid_ciphertext_plus_junk")
        ctx.nontrivial()
        r = ctx.call({"op": "aes", "mode": mode, "dir": "dec", "key": case["key"], "iv": case["iv"], "msg": case["ct"], "via_impl": bool(len(case["ct"]) & 2)})
        ctx.ev()
        if "err" not in r:
            ctx.viol("%s decryption accepts ciphertext of invalid length (%s)" % (mode, "zero" if not case["ct"] else "valid ciphertext followed by extra bytes" if case.get("junk") else "not a multiple of 16"), {"len": len(case["ct"]) // 2, "resp": str(r.get("ok", r.get("panic")))[:100]})
