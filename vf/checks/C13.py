"""C13 — hash, HMAC and PBKDF2 equal the standard algorithms; streaming adapters are chunking-invariant."""
import zlib

from .. import gen
from ..ref import bip32, hashes

ID = "C13"
RULE = (
    "cases: every message length 0..300 (thorough 0..700) for the six one-shot hashes; HMAC for six functions x key lengths {0,1,63,64,65,127,128,129,300} x message lengths; "
    "PBKDF2 x {sha1,sha256,sha512} x rounds {1,2,3,10,1000(,2048)} x output lengths spanning several blocks; all two-way splits of inputs <=130 bytes and random k-way chunkings "
    "through the public Sha256d/Sha256r/Hash160 digest adapters with and without reversed output; from_mnemonic. non-trivial = distinct case with a non-empty message"
)
ASSUMPTIONS = ["hashlib (OpenSSL) is the reference for the primitives; RIPEMD-160 cross-checked against a pure-Python implementation; HMAC written out from RFC 2104"]
NSHARDS = {"quick": 16, "thorough": 32}
BUDGET_S = {"quick": 200, "thorough": 1500}
MIN_HITS = {
    'quick': {"hash": 903, "hmac": 759, "pbkdf2": 353, "chunks": 6593, "mnemonic": 2, "reuse": 294},
    'thorough': {"hash": 21603, "hmac": 19962, "pbkdf2": 787, "chunks": 322320, "mnemonic": 7},
}
FN = ["sha1", "sha256", "sha256d", "sha512", "ripemd160", "hash160"]


def selftest():
    hashes.selftest()
    bip32.selftest()
    # hashlib's PBKDF2 (used only for the very large iteration counts) against the pure-Python reference
    import hashlib

    for fn, data in (("sha1", b"abc"), ("sha256", b""), ("sha512", b"x" * 300), ("ripemd160", b"message digest")):
        assert hashlib.new(fn, data).digest() == hashes.FUNCS[fn][0](data), "hashlib %s disagrees with the reference" % fn
    for fn in ("sha1", "sha256", "sha512"):
        for pw, salt, rd, ol in ((b"", b"", 1, 20), (b"password", b"salt", 3, 65), (b"p" * 200, b"s" * 100, 7, 33)):
            assert hashlib.pbkdf2_hmac(fn, pw, salt, rd, ol) == hashes.pbkdf2(fn, pw, salt, rd, ol), "hashlib PBKDF2 disagrees with the reference"


def cases(ctx):
    r = ctx.rnd
    S, N = ctx.shard, ctx.nshards
    t = ctx.tier == "thorough"
    k = 0
    maxlen = 6000 if t else 300
    for L in range(maxlen + 1):
        k += 1
        if k % N != S:
            continue
        m = gen.rbytes(r, L).hex()
        for fn in FN:
            yield {"k": "hash", "fn": fn, "msg": m}
    # very long messages, generated inside the driver (byte i = 31*i+7 mod 256); reference: hashlib (cross-checked against the
    # pure-Python reference in the self-test). 2^29 bytes and more make the SHA bit-length field exceed 32 bits.
    bigs = [(1 << 16) + 1, (1 << 20) + 3] + ([(1 << 24) + 5, (1 << 29) + 1, (1 << 29) - 1] if t else [])
    bi = 0
    for L in bigs:
        for fn in FN:
            bi += 1
            if bi % N == S:
                yield {"k": "bighash", "fn": fn, "len": L}
        bi += 1
        if bi % N == S:
            yield {"k": "bighmac", "fn": FN[bi % len(FN)], "len": min(L, (1 << 24) + 5), "key": gen.rbytes(r, r.choice([16, 64, 65, 200])).hex()}
    if S == 0:
        ctx.exhaustive.append("every message length 0..%d for each of the six hashes" % maxlen)
    klens = [0, 1, 63, 64, 65, 127, 128, 129, 300]
    mlens = [0, 1, 55, 56, 63, 64, 65, 111, 112, 127, 128, 129, 300] + [r.randrange(0, 600) for _ in range(600 if t else 12)]
    for kl in klens:
        for ml in mlens:
            k += 1
            if k % N != S:
                continue
            key, m = gen.rbytes(r, kl).hex(), gen.rbytes(r, ml).hex()
            for fn in FN:
                yield {"k": "hmac", "fn": fn, "key": key, "msg": m}
    # HMAC keys equal to, extending, or prefixes of constants the library itself uses as keys / magic strings
    for const in (b"Bitcoin seed", b"mnemonic", b"Bitcoin Signed Message:\n", b"BIE1"):
        for key in (const, const + b"\x00", const + b"x", const + gen.rbytes(r, 9), const[:-1], const * 2, const.upper()):
            k += 1
            if k % N != S:
                continue
            m = gen.rbytes(r, r.choice([0, 1, 32, 64, 100]))
            for fn in FN:
                yield {"k": "hmac", "fn": fn, "key": key.hex(), "msg": m.hex(), "const_key": True}
    rounds = [1, 2, 3, 10, 1000] + ([2048, 4096, 5] if t else [])
    for fn in ("sha1", "sha256", "sha512"):
        for rd in rounds:
            for ol in [1, 19, 20, 21, 32, 33, 64, 65, 100, 200]:
                k += 1
                if k % N != S:
                    continue
                if rd >= 1000 and ol not in (20, 33, 65, 200) and not t:
                    continue
                yield {"k": "pbkdf2", "fn": fn, "password": gen.rbytes(r, [0, 1, 8, 63, 64, 65, 127, 128, 129, 200][(k + ol) % 10]).hex(), "salt": gen.rbytes(r, r.choice([0, 1, 8, 16, 64, 100])).hex(), "rounds": rd, "len": ol}
    # very large iteration counts (a cap or a narrower integer type inside the loop shows only here); reference: hashlib's PBKDF2,
    # itself cross-checked against the pure-Python reference in the self-test
    big = [("sha1", 10_000_001, 20)] + ([("sha256", 16_777_217, 32), ("sha512", 4_194_305, 64), ("sha1", 20_000_003, 21)] if t else [])
    for bi, (fn, rd, ol) in enumerate(big):
        if S == (3 + bi) % N:
            yield {"k": "pbkdf2", "fn": fn, "password": gen.rbytes(r, 8).hex(), "salt": gen.rbytes(r, 8).hex(), "rounds": rd, "len": ol}
    # outputs longer than 1024 hash blocks (the block counter must keep counting)
    for bi2, (fn, ol) in enumerate((("sha1", 20 * 1024 + 1), ("sha1", 20 * 2048 + 7), ("sha256", 32 * 1024 + 1), ("sha512", 64 * 1024 + 1))):
        if S == (9 + bi2) % N:
            yield {"k": "pbkdf2", "fn": fn, "password": gen.rbytes(r, 8).hex(), "salt": gen.rbytes(r, 8).hex(), "rounds": 1, "len": ol, "long_output": True}
    # LONG passwords and salts, log-spaced (1 KiB .. 1 MiB and the neighbours of every power of two), for every PRF: a long password is
    # pre-hashed with the PRF's OWN hash and nothing else; one round, evaluated with the reference
    for li, L in enumerate(sorted(set(v for e_ in range(10, 21) for v in (2**e_ - 1, 2**e_, 2**e_ + 1, 3 * 2 ** (e_ - 1) + 5)))):
        for fi, fn in enumerate(("sha1", "sha256", "sha512")):
            if (li * 3 + fi) % N != S:
                continue
            yield {"k": "pbkdf2", "fn": fn, "password": gen.rbytes(r, L).hex(), "salt": gen.rbytes(r, 8).hex(), "rounds": 1 + (li & 1), "len": [20, 32, 64, 65][li % 4], "shape": "long_password"}
            yield {"k": "pbkdf2", "fn": fn, "password": gen.rbytes(r, 9).hex(), "salt": gen.rbytes(r, L).hex(), "rounds": 1 + (li & 1), "len": [20, 32, 64, 65][li % 4], "shape": "long_salt"}
    # password / salt lengths around the HMAC block sizes, for every PRF
    for fn in ("sha1", "sha256", "sha512"):
        for pl in [0, 1, 55, 56, 63, 64, 65, 111, 112, 127, 128, 129, 200]:
            for sl in (0, 8, 64, 128):
                k += 1
                if k % N != S:
                    continue
                yield {"k": "pbkdf2", "fn": fn, "password": gen.rbytes(r, pl).hex(), "salt": gen.rbytes(r, sl).hex(), "rounds": r.choice([1, 2, 3]), "len": r.choice([20, 32, 33, 64, 65])}
    # passwords / salts with zero bytes at the end or the start, all-zero, on both sides of the block size (HMAC zero-pads SHORT keys, so a
    # trailing zero is insignificant only below the block size)
    for fn in ("sha1", "sha256", "sha512"):
        bs = 128 if fn == "sha512" else 64
        for pl in (1, 2, bs - 1, bs, bs + 1, bs + 2, 2 * bs, 2 * bs + 1, 200):
            for shape in ("trail0", "lead0", "zeros", "trail00"):
                k += 1
                if k % N != S:
                    continue
                body = gen.rbytes(r, pl)
                pw = {"trail0": body[:-1] + b"\x00", "lead0": b"\x00" + body[1:], "zeros": bytes(pl), "trail00": (body[:-2] + b"\x00\x00") if pl >= 2 else b"\x00"}[shape]
                salt = gen.rbytes(r, 7) + (b"\x00" if shape != "lead0" else b"")
                yield {"k": "pbkdf2", "fn": fn, "password": pw.hex(), "salt": salt.hex(), "rounds": r.choice([1, 2]), "len": r.choice([20, 33, 64]), "shape": shape}
    # back-to-back derivations whose password || salt concatenations are EQUAL but split differently (and the reverse order)
    for fn in ("sha1", "sha256", "sha512"):
        k += 1
        if k % N != S:
            continue
        whole = gen.rbytes(r, r.choice([8, 27, 70]))
        cuts = sorted(set([0, 1, len(whole) // 2, len(whole) // 2 + 1, len(whole) - 1, len(whole)]))
        rd, ol = r.choice([1, 2, 3]), r.choice([20, 32, 64])
        for c_ in cuts + cuts[::-1]:
            yield {"k": "pbkdf2", "fn": fn, "password": whole[:c_].hex(), "salt": whole[c_:].hex(), "rounds": rd, "len": ol, "shape": "same_concatenation"}
    # random-salt mode: the library draws the salt and reports it; the reference recomputes with the reported salt
    for i in range(24 if t else 6):
        if i % N == S % 24 or t:
            yield {"k": "pbkdf2", "fn": ["sha1", "sha256", "sha512"][i % 3], "password": gen.rbytes(r, r.choice([0, 8, 64, 65])).hex(), "salt": None, "rounds": r.choice([1, 2, 10]), "len": r.choice([20, 32, 64, 65])}
    kinds = ["sha256d", "sha256r", "hash160", "signing_sha256", "signing_sha256d"]
    for L in range(0, 131):
        k += 1
        if k % N != S:
            continue
        m = gen.rbytes(r, L)
        for kind in kinds[:3]:
            for cut in range(L + 1):
                if not t and L > 70 and cut % 7:
                    continue
                yield {"k": "chunks", "kind": kind, "chunks": [m[:cut].hex(), m[cut:].hex()], "reverse": bool((cut + L) & 1)}
        for kind in kinds[3:]:
            yield {"k": "chunks", "kind": kind, "chunks": [m.hex()], "reverse": bool(L & 1)}
        for rev in (False, True):
            cut = r.randrange(L + 1)
            for ck in ("sha256d_chain", "sha256r_chain", "hash160_chain"):
                yield {"k": "chunks", "kind": ck, "chunks": [m[:cut].hex(), m[cut:].hex()], "reverse": rev}
            yield {"k": "chunks", "kind": "hash160_new", "chunks": [m[:cut].hex(), m[cut:].hex()], "reverse": rev}
    if S == 0:
        ctx.exhaustive.append("all two-way splits of one random input of every length 0..%d through Sha256d/Sha256r/Hash160 adapters" % (130 if t else 70))
    # the same adapter object reused after finalize_reset / reset (the signers reuse their digest objects)
    for L in [0, 1, 31, 32, 55, 56, 63, 64, 65, 100] + [r.randrange(0, 300) for _ in range(40 if t else 4)]:
        k += 1
        if k % N != S and not t:
            continue
        m = gen.rbytes(r, L)
        cut = r.randrange(L + 1)
        for kind in kinds[:3]:
            for rev in (False, True):
                yield {"k": "chunks", "kind": kind, "chunks": [m[:cut].hex(), m[cut:].hex()], "reverse": rev, "reuse": True}
                # empty chunks at the end, at the start and in the middle of the sequence of updates
                for shape in ([m.hex(), ""], ["", m.hex()], [m[:cut].hex(), "", m[cut:].hex()], [m[:cut].hex(), m[cut:].hex(), "", ""], [""], ["", ""]):
                    yield {"k": "chunks", "kind": kind, "chunks": shape, "reverse": rev, "reuse": True, "empty_chunks": True}
                    yield {"k": "chunks", "kind": kind, "chunks": shape, "reverse": rev, "empty_chunks": True}
    # finalize_into / finalize_into_reset into an output array that is not zeroed, for messages whose digest STARTS or ENDS with a zero
    # byte (searched with hashlib; one message in 256 each) and for ordinary ones
    if S % 4 == 1 or t:
        import hashlib

        def dg(kind, m_):
            h1 = hashlib.sha256(m_).digest()
            return hashlib.sha256(h1).digest() if kind == "sha256d" else hashlib.new("ripemd160", h1).digest() if kind == "hash160" else h1

        for kind in ("sha256d", "sha256r", "hash160"):
            found = {}
            for ctr in range(4000):
                m_ = b"zero-digest-search-%d" % ctr
                d_ = dg(kind, m_)
                for nm, ok_ in (("lead0", d_[0] == 0), ("trail0", d_[-1] == 0), ("lead00", d_[:2] == b"\x00\x00"), ("plain", True)):
                    if ok_ and nm not in found:
                        found[nm] = m_
                if len(found) == 4:
                    break
            for nm, m_ in found.items():
                for rev in (False, True):
                    yield {"k": "chunks", "kind": kind + "_into", "chunks": [m_[:5].hex(), m_[5:].hex()], "reverse": rev, "into": nm}
    # clone / clone_from between adapter objects whose reverse flags differ
    for L in [0, 1, 55, 64, 65, 130]:
        k += 1
        if k % N != S and not t:
            continue
        m = gen.rbytes(r, L)
        cut = r.randrange(L + 1)
        for kind in kinds[:3]:
            for rev in (False, True):
                yield {"k": "chunks", "kind": kind, "chunks": [m[:cut].hex(), m[cut:].hex()], "reverse": rev, "cloned": True}
    for _ in range(12000 if t else 20):
        m = gen.rbytes(r, r.choice([64, 65, 127, 128, 129, 200, 1000]))
        cuts = sorted(r.randrange(len(m) + 1) for _ in range(r.choice([2, 3, 5, 9])))
        parts = [m[a:b].hex() for a, b in zip([0] + cuts, cuts + [len(m)])]
        yield {"k": "chunks", "kind": r.choice(kinds[:3]), "chunks": parts, "reverse": r.random() < 0.5}
    for i in range(12 if t else 4):
        if i % N == S:
            yield {"k": "mnemonic", "mnemonic": (b"abandon " * r.choice([1, 11, 23]) + gen.rbytes(r, r.choice([0, 5])).hex().encode()).hex()}


def judge(ctx, case):
    k = case["k"]
    ctx.hit(k)
    if k == "hash":
        m = bytes.fromhex(case["msg"])
        if m:
            ctx.nontrivial()
        r = ctx.call({"op": "hash", "fn": case["fn"], "msg": case["msg"]})
        ctx.ev()
        exp = hashes.FUNCS[case["fn"]][0](m).hex()
        if r.get("ok", {}).get("bytes") != exp or not r["ok"]["hex_eq"]:
            ctx.viol("hash %s differs from the reference" % case["fn"], {"len": len(m), "got": str(r.get("ok"))[:200], "exp": exp})
    elif k in ("bighash", "bighmac"):
        import hashlib
        import hmac as pyhmac

        n = case["len"]
        ctx.nontrivial()
        ctx.hit("long_message")
        if n >= 1 << 29:
            ctx.hit("bit_length_above_2^32")
        m = (bytes((31 * i + 7) & 0xFF for i in range(256)) * (n // 256 + 1))[:n]
        fn = case["fn"]

        def hl(name, data):
            return hashlib.new(name, data).digest()

        if k == "bighash":
            exp = {"sha1": lambda: hl("sha1", m), "sha256": lambda: hl("sha256", m), "sha512": lambda: hl("sha512", m), "ripemd160": lambda: hl("ripemd160", m), "sha256d": lambda: hl("sha256", hl("sha256", m)), "hash160": lambda: hl("ripemd160", hl("sha256", m))}[fn]().hex()
            r = ctx.call({"op": "hash", "fn": fn, "msg_gen": {"len": n}, "guard": 4 * n + (64 << 20)}, watchdog=900)
            ctx.ev()
            if r.get("ok", {}).get("bytes") != exp:
                ctx.viol("hash %s of a very long message differs from the reference (%s)" % (fn, "bit length above 2^32" if n >= 1 << 29 else "length below 2^29"), {"len": n, "got": str(r.get("ok", r))[:200], "exp": exp})
        else:
            key = bytes.fromhex(case["key"])
            base = {"sha1": "sha1", "sha256": "sha256", "sha512": "sha512", "ripemd160": "ripemd160"}.get(fn)
            if base is None:
                return
            exp = pyhmac.new(key, m, base).digest().hex()
            r = ctx.call({"op": "hmac", "fn": fn, "key": case["key"], "msg_gen": {"len": n}, "guard": 4 * n + (64 << 20)}, watchdog=900)
            ctx.ev()
            got = r.get("ok")
            got = got.get("bytes") if isinstance(got, dict) else got
            if got != exp:
                ctx.viol("HMAC-%s of a very long message differs from the reference" % fn, {"len": n, "got": str(r.get("ok", r))[:200], "exp": exp})
    elif k == "hmac":
        m, key = bytes.fromhex(case["msg"]), bytes.fromhex(case["key"])
        ctx.nontrivial()
        r = ctx.call({"op": "hmac", "fn": case["fn"], "msg": case["msg"], "key": case["key"]})
        ctx.ev()
        exp = hashes.hmac(case["fn"], key, m).hex()
        bs = hashes.FUNCS[case["fn"]][1]
        ctx.hit("hmac_key_%s_block" % ("lt" if len(key) < bs else "eq" if len(key) == bs else "gt"))
        if case.get("const_key"):
            ctx.hit("hmac_key_related_to_a_library_constant")
        if r.get("ok") != exp:
            ctx.viol("HMAC-%s differs from the reference (key %s block size)" % (case["fn"], "shorter than" if len(key) < bs else "equal to" if len(key) == bs else "longer than"), {"got": str(r.get("ok", r.get("panic")))[:200], "exp": exp})
    elif k == "pbkdf2":
        ctx.nontrivial()
        if case.get("shape") in ("long_password", "long_salt"):
            ctx.hit("pbkdf2_" + case["shape"])
        elif case.get("shape"):
            ctx.hit("pbkdf2_zero_bytes_in_password")
        req = {"op": "pbkdf2", "fn": case["fn"], "password": case["password"], "rounds": case["rounds"], "len": case["len"]}
        if case["salt"] is not None:
            req["salt"] = case["salt"]
            if zlib.crc32(case["password"].encode() + case["salt"].encode()) % 3 == 0:
                req["via_impl"] = True  # KDF::pbkdf2_impl, the public inner function
                ctx.hit("pbkdf2_via_impl")
        r = ctx.call(req)
        ctx.ev()
        if case["salt"] is None:
            ctx.hit("pbkdf2_random_salt")
            if "ok" not in r or len(r["ok"]["salt"]) < 16:
                ctx.viol("PBKDF2 with a library-chosen salt fails or reports an implausibly short salt", {"resp": str(r)[:200]})
                return
            exp = hashes.pbkdf2(case["fn"], bytes.fromhex(case["password"]), bytes.fromhex(r["ok"]["salt"]), case["rounds"], case["len"]).hex()
            if r["ok"]["hash"] != exp:
                ctx.viol("PBKDF2-%s with a library-chosen salt differs from the reference computed with the reported salt" % case["fn"], {})
            return
        if case.get("long_output"):
            import hashlib

            ctx.hit("pbkdf2_output>1024_blocks")
            exp = hashlib.pbkdf2_hmac(case["fn"], bytes.fromhex(case["password"]), bytes.fromhex(case["salt"]), 1, case["len"]).hex()
        elif case.get("shape") in ("long_password", "long_salt"):
            import hashlib

            exp = hashlib.pbkdf2_hmac(case["fn"], bytes.fromhex(case["password"]), bytes.fromhex(case["salt"]), case["rounds"], case["len"]).hex()
        elif case["rounds"] > 100000:
            import hashlib

            ctx.hit("pbkdf2_rounds>10M")
            exp = hashlib.pbkdf2_hmac(case["fn"], bytes.fromhex(case["password"]), bytes.fromhex(case["salt"]), case["rounds"], case["len"]).hex()
        else:
            exp = hashes.pbkdf2(case["fn"], bytes.fromhex(case["password"]), bytes.fromhex(case["salt"]), case["rounds"], case["len"]).hex()
        if r.get("ok", {}).get("hash") != exp:
            ctx.viol("PBKDF2-%s differs from the reference" % case["fn"], {"got": str(r.get("ok", r.get("panic")))[:200], "exp": exp})
        elif r["ok"]["salt"] != case["salt"]:
            ctx.viol("PBKDF2 result reports a different salt", {})
    elif k == "chunks":
        parts = [bytes.fromhex(c) for c in case["chunks"]]
        m = b"".join(parts)
        if m:
            ctx.nontrivial()
        r = ctx.call({"op": "digest_chunks", "kind": case["kind"], "chunks": case["chunks"], "reverse": case["reverse"], "reuse": case.get("reuse", False)})
        ctx.ev()
        fn = {"sha256d": hashes.sha256d, "sha256r": hashes.sha256, "hash160": hashes.hash160, "hash160_new": hashes.hash160, "sha256d_into": hashes.sha256d, "sha256r_into": hashes.sha256, "hash160_into": hashes.hash160, "sha256d_chain": hashes.sha256d, "sha256r_chain": hashes.sha256, "hash160_chain": hashes.hash160, "signing_sha256": hashes.sha256, "signing_sha256d": hashes.sha256d}[case["kind"]]
        exp = fn(m)
        if case["reverse"]:
            exp = exp[::-1]
            ctx.hit("reversed")
        if case.get("empty_chunks"):
            ctx.hit("empty_chunks")
        if case.get("into"):
            ctx.hit("finalize_into_dirty_array")
            base = case["kind"][:-5]
            fn2 = {"sha256d": hashes.sha256d, "sha256r": hashes.sha256, "hash160": hashes.hash160}[base]
            e2 = fn2(m)
            if case["reverse"]:
                e2 = e2[::-1]
            ri = ctx.call({"op": "digest_chunks", "kind": case["kind"], "chunks": case["chunks"], "reverse": case["reverse"]})
            ctx.ev()
            if ri.get("ok") != (e2 + e2).hex():
                ctx.viol("streaming adapter %s (%s output): finalize_into(_reset) into a non-zero output array differs from the reference (digest shape: %s)" % (base, "reversed" if case["reverse"] else "plain", case["into"]), {"got": str(ri.get("ok", ri))[:200], "exp": (e2 + e2).hex()})
            return
        if case.get("cloned"):
            ctx.hit("cloned_adapter")
            rc = ctx.call({"op": "digest_chunks", "kind": case["kind"], "chunks": case["chunks"], "reverse": case["reverse"], "cloned": True})
            outs = rc.get("ok")
            if not isinstance(outs, list) or len(outs) != 3:
                ctx.viol("streaming adapter %s could not be cloned" % case["kind"], {"resp": str(rc)[:200]})
                return
            for o_, what in zip(outs, ("the source itself", "the target of clone_from (its own flag differed)", "the clone()")):
                ctx.ev()
                if o_ != exp.hex():
                    ctx.viol("streaming adapter %s (%s output): %s gives a different digest" % (case["kind"], "reversed" if case["reverse"] else "plain", what), {"got": o_, "exp": exp.hex()})
            return
        if case.get("reuse"):
            ctx.hit("reuse")
            outs = r.get("ok")
            if not isinstance(outs, list) or len(outs) != 3:
                ctx.viol("streaming adapter %s could not be reused" % case["kind"], {"resp": str(r)[:200]})
                return
            for i, (o, what) in enumerate(zip(outs, ("first use", "second use after finalize_reset", "use after an explicit reset"))):
                ctx.ev()
                if o != exp.hex():
                    ctx.viol("streaming adapter %s (%s output) gives a different digest on its %s" % (case["kind"], "reversed" if case["reverse"] else "plain", what), {"got": o, "exp": exp.hex()})
            return
        if r.get("ok") != exp.hex():
            ctx.viol("streaming adapter %s (%s output) differs from the one-shot reference for a %d-way chunking" % (case["kind"], "reversed" if case["reverse"] else "plain", min(len(parts), 3)), {"got": str(r.get("ok", r.get("panic")))[:200], "exp": exp.hex()})
    elif k == "mnemonic":
        ctx.nontrivial()
        m = bytes.fromhex(case["mnemonic"])
        r = ctx.call({"op": "mnemonic", "mnemonic": case["mnemonic"]})
        ctx.ev()
        seed = hashes.pbkdf2("sha512", m, b"mnemonic", 2048, 64)
        node = bip32.master(seed)
        if node is not None and r.get("ok") != node.to_string():
            ctx.viol("from_mnemonic(m, None) differs from from_seed(PBKDF2-SHA512(m, 'mnemonic', 2048, 64))", {"got": str(r.get("ok", r.get("err")))[:200]})
