"""C07 — key and address encodings (WIF, SEC1, Base58Check P2PKH) are exact and validated."""
from .. import gen
from ..ref import base58, ec, hashes, wire

ID = "C07"
RULE = (
    "cases: private keys {1,2,3,(n-1)/2,(n+1)/2,n-2,n-1} + random x both compression forms: WIF / bytes / hex / public key / HASH160 / address (all 256 prefixes sampled, 0x00 and 0x6f always) / "
    "locking script compared with the reference and round-tripped; 20-byte hashes with 0..20 leading zero bytes (short addresses); single-character substitutions, single-byte payload "
    "corruptions, wrong payload lengths with correct checksum for addresses and WIF; 33/65-byte public-key candidates (on-curve, off-curve, x>=p, identity, wrong tag/length); "
    "get_unlocking_script with the matching and a non-matching key for every prefix class. non-trivial = every distinct case"
)
ASSUMPTIONS = ["reference secp256k1 / Base58Check in vf/ref", "SEC1 hybrid/compact tags 05/06/07: no acceptance claim", "non-mainnet WIF prefixes: no claim"]
NSHARDS = {"quick": 32, "thorough": 64}
BUDGET_S = {"quick": 200, "thorough": 1800}
MIN_HITS = {
    'quick': {"key": 256, "edge_key": 87, "addr_hash": 5740, "leading_zero_hash": 1389, "addr_corrupt": 1440, "addr_len": 765, "wif_corrupt": 3584, "pub_candidate": 880, "pub_offcurve": 480, "unlock": 128, "prefix_nonzero": 5204},
    'thorough': {"key": 192000, "addr_hash": 24615897, "leading_zero_hash": 133747, "addr_corrupt": 1036800, "wif_corrupt": 2688000, "pub_candidate": 460800, "pub_offcurve": 246723, "unlock": 96000},
}
EDGE = [1, 2, 3, (ec.N - 1) // 2, (ec.N + 1) // 2, ec.N - 2, ec.N - 1]


def selftest():
    ec.selftest()
    base58.selftest()
    hashes.selftest()


def ref_wif(x, compressed):
    return base58.check_encode(b"\x80" + x.to_bytes(32, "big") + (b"\x01" if compressed else b""))


def ref_addr(h, prefix=0):
    return base58.check_encode(bytes([prefix]) + h)


def subst(r, s):
    i = r.randrange(len(s))
    c = r.choice([x for x in base58.ALPHABET if x != s[i]]) if r.random() < 0.85 else r.choice("0OIl +/=\u00e9\n")
    return s[:i] + c + s[i + 1 :]


def cases(ctx):
    r = ctx.rnd
    t = ctx.tier == "thorough"
    S, N = ctx.shard, ctx.nshards
    for i in range(2500 if t else 8):
        x = r.choice(EDGE) if r.random() < 0.3 else r.randrange(1, ec.N)
        comp = r.random() < 0.5
        prefix = r.choice([0, 0x6F, r.randrange(256)])
        yield {"k": "key", "x": "%064x" % x, "compressed": comp, "prefix": prefix}
        if i % 2 == 0:
            # the negated key right afterwards (same X coordinate, other parity), then the first key again
            yield {"k": "key", "x": "%064x" % (ec.N - x), "compressed": comp, "prefix": prefix, "twin": True}
            yield {"k": "key", "x": "%064x" % x, "compressed": not comp, "prefix": prefix, "twin": True}
        # a sequence of network changes on one address object, starting from a string / hash with an arbitrary prefix
        steps = []
        for _ in range(r.randrange(1, 4)):
            steps.append({"preset": r.choice(["mainnet", "testnet", "regtest", "stn", "default"])} if r.random() < 0.6 else {"prefix": r.choice([0, 0, 0x6F, r.randrange(256)])})
        yield {"k": "netseq", "hash": (b"\x00" * r.choice([0, 0, 1, 3]) + gen.rbytes(r, 20))[:20].hex(), "start_prefix": r.choice([0, 0x6F, 0x6F, r.randrange(256)]), "from_string": r.random() < 0.5, "steps": steps, "impl": r.random() < 0.3}
        if i % 4 == 0:
            yield {"k": "random_key"}
            yield {"k": "preset", "hash": (b"\x00" * r.choice([0, 0, 1, 3]) + gen.rbytes(r, 20))[:20].hex(), "preset": r.choice(["mainnet", "testnet", "regtest", "stn", "default"])}
        y = r.randrange(1, ec.N)
        yield {"k": "unlock", "x": "%064x" % x, "compressed": comp, "prefix": prefix, "other": "%064x" % y, "other_compressed": r.random() < 0.5, "flag": r.choice([0x41, 0x01, 0xC3])}
        wif = ref_wif(x, comp)
        for _ in range(6):
            yield {"k": "wif_corrupt", "s": subst(r, wif)}
        raw = base58.decode(wif)
        for _ in range(3):
            b = bytearray(raw)
            b[r.randrange(len(b))] ^= 1 << r.randrange(8)
            yield {"k": "wif_corrupt", "s": base58.encode(bytes(b))}
        # wrong payload lengths with a correct checksum
        for body in (x.to_bytes(32, "big")[:31], x.to_bytes(32, "big") + b"\x02", x.to_bytes(32, "big") + b"\x01\x01", x.to_bytes(32, "big") + b"\x00", b"", x.to_bytes(32, "big")[:1], x.to_bytes(32, "big") + b"\x01" * 3):
            yield {"k": "wif_corrupt", "s": base58.check_encode(b"\x80" + body)}
        # the 33-byte "big integer" form 00 || key (key with and without its top bit set), with and without a trailing byte
        hi = (x | (1 << 255)) % ec.N or 1
        for kb in (hi.to_bytes(32, "big"), x.to_bytes(32, "big")):
            for tail in (b"", b"\x01", b"\x00", b"\x02"):
                yield {"k": "wif_corrupt", "s": base58.check_encode(b"\x80\x00" + kb + tail)}
            for raw_ in (b"\x00" + kb, kb + b"\x00", kb + b"\x01", kb[:31], kb[1:], b"\x00" * 2 + kb, kb + kb):
                yield {"k": "raw_len", "hex": raw_.hex()}
        if i % 8 == 0:
            yield {"k": "raw_len", "hex": ""}
        # the locking script does not depend on the network prefix: every prefix value
        if i < 2 or t:
            h20 = gen.rbytes(r, 20).hex()
            for p_ in range(256):
                if (p_ + i) % (1 if t else 2) == 0 or p_ in (0x05, 0xC4, 0x6F, 0x00):
                    yield {"k": "addr_hash", "hash": h20, "prefix": p_}
        for bad in (0, ec.N, ec.N + 1, (1 << 256) - 1):
            yield {"k": "wif_corrupt", "s": base58.check_encode(b"\x80" + bad.to_bytes(32, "big") + (b"\x01" if comp else b""))}
    # every prefix byte once per run (spread over shards)
    for p in range(S, 256, N):
        yield {"k": "addr_hash", "hash": gen.rbytes(r, 20).hex(), "prefix": p}
    for zl in range(0, 21):
        for rep in range(12 if t else 1):
            if (zl + rep) % N != S % 21 and N > 21:
                pass
            h = b"\x00" * zl + (bytes([r.randrange(1, 256)]) + gen.rbytes(r, 19 - zl) if zl < 20 else b"")
            for prefix in (0, 0, 0x6F, r.randrange(256)):
                yield {"k": "addr_hash", "hash": h.hex(), "prefix": prefix}
    # the shortest valid addresses (26 characters on mainnet): 19 zero bytes + one byte 01..07, or 18 zero bytes + 01 + any byte; and
    # their neighbours
    if S % 4 == 3 or t:
        for b in list(range(0, 12)) + [0x7F, 0x80, 0xFF]:
            yield {"k": "addr_hash", "hash": (b"\x00" * 19 + bytes([b])).hex(), "prefix": 0, "shortest": True}
        for b1, b2 in ((1, 0), (1, 0xFF), (1, r.randrange(256)), (2, 0), (0, 1), (8, 0)):
            yield {"k": "addr_hash", "hash": (b"\x00" * 18 + bytes([b1, b2])).hex(), "prefix": 0, "shortest": True}
            yield {"k": "addr_hash", "hash": (b"\x00" * 18 + bytes([b1, b2])).hex(), "prefix": 0x6F, "shortest": True}
    for i in range(1500 if t else 5):
        h = gen.rbytes(r, 20)
        if r.random() < 0.3:
            h = b"\x00" * r.randrange(1, 5) + h[: 20 - 4][:16] + gen.rbytes(r, 4)
            h = h[:20].ljust(20, b"\x07")
        prefix = r.choice([0, 0, 0x6F, r.randrange(256)])
        s = ref_addr(h, prefix)
        for _ in range(12):
            yield {"k": "addr_corrupt", "s": subst(r, s)}
        raw = base58.decode(s)
        for _ in range(4):
            b = bytearray(raw)
            b[r.randrange(len(b))] ^= 1 << r.randrange(8)
            yield {"k": "addr_corrupt", "s": base58.encode(bytes(b))}
        yield {"k": "addr_corrupt", "s": s[:-1]}
        yield {"k": "addr_corrupt", "s": s + r.choice(base58.ALPHABET)}
        for body in (h[:19], h + b"\x00", h[:1], b"", h + h):
            yield {"k": "addr_len", "s": base58.check_encode(bytes([prefix]) + body)}
        # a valid address / WIF whose LAST decoded byte is dropped or duplicated: search for payloads whose checksum ends in 0x00 / starts
        # conveniently so that the shortened string still looks plausible (these are 24- or 26-byte decodes)
        for _ in range(400):
            hh = gen.rbytes(r, 20)
            full = bytes([prefix]) + hh + hashes.sha256d(bytes([prefix]) + hh)[:4]
            if full[-1] == 0:
                yield {"k": "addr_len", "s": base58.encode(full[:-1])}
                yield {"k": "addr_len", "s": base58.encode(full + b"\x00")}
                break
        full = bytes([prefix]) + h + hashes.sha256d(bytes([prefix]) + h)[:4]
        yield {"k": "addr_len", "s": base58.encode(full[:-1])}
        yield {"k": "addr_len", "s": base58.encode(full + bytes([full[-1]]))}
        yield {"k": "addr_len", "s": base58.encode(full[1:])}
    for i in range(12000 if t else 55):
        kind = r.choice(["on", "on_u", "off", "off_u", "xgep", "ident", "tag", "len", "rand33", "rand65", "y_wrong"])
        x = r.randrange(1, ec.N)
        Q = ec.mul_g(x)
        if kind == "on":
            b = ec.ser(Q, True)
        elif kind == "on_u":
            b = ec.ser(Q, False)
        elif kind == "off":
            while True:
                xx = r.randrange(0, ec.P)
                if ec.lift_x(xx, False) is None:
                    break
            b = bytes([r.choice([2, 3])]) + xx.to_bytes(32, "big")
        elif kind == "off_u":
            b = b"\x04" + Q[0].to_bytes(32, "big") + ((Q[1] + r.randrange(1, 1000)) % ec.P).to_bytes(32, "big")
        elif kind == "y_wrong":
            b = b"\x04" + gen.rbytes(r, 64)
        elif kind == "xgep":
            xx = r.choice([ec.P, ec.P + 1, (1 << 256) - 1, ec.P + r.randrange(2, 2**32)])
            b = bytes([r.choice([2, 3])]) + xx.to_bytes(32, "big")
        elif kind == "ident":
            b = r.choice([b"\x00", b"\x00" * 33, b"\x00" * 65, b"\x02" + b"\x00" * 32, b"\x04" + b"\x00" * 64])
        elif kind == "tag":
            body = ec.ser(Q, r.random() < 0.5)
            b = bytes([r.choice([0, 1, 8, 9, 0x10, 0x42, 0x84, 0xFF])]) + body[1:]
        elif kind == "len":
            body = ec.ser(Q, r.random() < 0.5)
            b = r.choice([body[:-1], body + b"\x00", body[:32], body[:1], b""])
        elif kind == "rand33":
            b = bytes([r.choice([2, 3])]) + gen.rbytes(r, 32)
        else:
            b = b"\x04" + gen.rbytes(r, 64)
        yield {"k": "pub_candidate", "hex": b.hex(), "via": r.choice(["bytes", "hex"])}


def judge(ctx, case):
    k = case["k"]
    ctx.hit(k)
    ctx.nontrivial()
    if k == "key":
        if case.get("twin"):
            ctx.hit("neighbour_sequence")
        x = int(case["x"], 16)
        comp = case["compressed"]
        if x in EDGE:
            ctx.hit("edge_key")
        Q = ec.mul_g(x)
        pub = ec.ser(Q, comp)
        wif = ref_wif(x, comp)
        h160 = hashes.hash160(pub)
        r = ctx.call({"op": "privkey", "bytes": case["x"], "compressed": comp})
        ctx.ev()
        if "ok" not in r:
            ctx.viol("valid private key bytes not accepted", {"resp": str(r)[:200]})
            return
        o = r["ok"]
        for name, got, exp in (("to_wif", o["wif"], wif), ("to_bytes", o["bytes"], case["x"]), ("to_public_key", o["pub"], pub.hex()), ("get_point", o["point"], pub.hex()), ("hex", o["hex_eq"], True), ("pub_compressed", o["pub_compressed"], comp)):
            ctx.ev()
            if got != exp:
                ctx.viol("private key accessor %s differs from the reference" % name, {"got": str(got)[:120], "exp": str(exp)[:120]})
        ctx.ev()
        # the compression flag flipped AFTER a public key was derived from the object, and flipped back
        ctx.ev()
        fl = o.get("flipped", {})
        if fl.get("pub") != ec.ser(Q, not comp).hex() or fl.get("wif") != ref_wif(x, not comp) or fl.get("point") != ec.ser(Q, not comp).hex():
            ctx.viol("after to_public_key() and then compress_public_key(flipped) the derived public key / WIF have the wrong form", {"got": str(fl)[:300]})
        bk = o.get("back", {})
        if bk.get("pub") != pub.hex() or bk.get("wif") != wif:
            ctx.viol("flipping the compression flag twice does not restore the original public key / WIF", {"got": str(bk)[:300]})
        if o["from_private_key"] != pub.hex():
            ctx.viol("private key accessor PublicKey::from_private_key differs from the reference", {"got": o["from_private_key"][:140], "exp": pub.hex()[:140]})
        for req, what in (({"op": "privkey", "wif": wif}, "from_wif"), ({"op": "privkey", "hex_str": case["x"], "compressed": comp}, "from_hex")):
            r2 = ctx.call(req)
            ctx.ev()
            if "ok" not in r2:
                ctx.viol("%s rejects a valid encoding" % what, {"resp": str(r2.get("err", r2.get("panic")))[:200], "wif": wif})
            elif (r2["ok"]["bytes"], r2["ok"]["pub"], r2["ok"]["wif"]) != (case["x"], pub.hex(), wif):
                ctx.viol("%s does not round-trip key / compression flag" % what, {"got": str(r2["ok"])[:300]})
        # public key + address
        pk = ctx.call({"op": "pubkey", "hex": pub.hex()})
        ctx.ev()
        if "ok" not in pk:
            ctx.viol("valid SEC1 public key rejected", {"pub": pub.hex(), "resp": str(pk)[:200]})
            return
        po = pk["ok"]
        if po["bytes"].get("ok") != pub.hex() or po["compressed"] != comp:
            ctx.viol("public key bytes do not round-trip", {})
        if po["to_compressed"].get("ok", {}).get("bytes") != ec.ser(Q, True).hex() or po["to_decompressed"].get("ok", {}).get("bytes") != ec.ser(Q, False).hex():
            ctx.viol("to_compressed / to_decompressed differ from the reference point encodings", {"got": str(po["to_compressed"])[:150] + str(po["to_decompressed"])[:200]})
        if po["cc"].get("ok", {}).get("bytes") != ec.ser(Q, True).hex() or po["dd"].get("ok", {}).get("bytes") != ec.ser(Q, False).hex():
            ctx.viol("compress(decompress(k)) / decompress(compress(k)) is not the identity", {})
        for fld in ("serde_json", "serde_cbor"):
            ctx.ev()
            ctx.hit("pubkey_serde")
            back = po[fld].get("ok")
            back = back.get("back") if fld == "serde_json" and back else back
            if back is None or back.get("bytes") != pub.hex() or back.get("compressed") != comp:
                ctx.viol("public key does not round-trip through its %s encoding (%s form)" % ("serde JSON" if fld == "serde_json" else "serde CBOR", "compressed" if comp else "uncompressed"), {"got": str(po[fld])[:260], "exp": pub.hex()})
        if po["address"].get("ok") != ref_addr(h160, 0):
            ctx.viol("to_p2pkh_address differs from the reference address", {"got": str(po["address"])[:100], "exp": ref_addr(h160, 0)})
        p = case["prefix"]
        a = ctx.call({"op": "addr", "from_pub": pub.hex(), "prefix": p, "via_pubkey_method": comp})
        ctx.ev()
        ao = a.get("ok")
        if ao is None:
            ctx.viol("address derivation from a valid public key failed", {"resp": str(a)[:200]})
            return
        if p != 0:
            ctx.hit("prefix_nonzero")
        if ao["string"].get("ok") != ref_addr(h160, p) or ao["hash"] != h160.hex() or not ao["hash_hex_eq"]:
            ctx.viol("address string / hash differs from the reference (prefix %s)" % ("0x00" if p == 0 else "non-zero"), {"got": str(ao["string"])[:100], "exp": ref_addr(h160, p)})
        if ao["locking"].get("ok") != (b"\x76\xa9\x14" + h160 + b"\x88\xac").hex():
            ctx.viol("P2PKH locking script differs from 76a914<hash>88ac", {"got": str(ao["locking"])[:120]})
        if ao["reparse"].get("ok") != {"string": ref_addr(h160, p), "hash": h160.hex()}:
            ctx.viol("address does not round-trip through its string (prefix %s)" % ("0x00" if p == 0 else "non-zero"), {"got": str(ao["reparse"])[:200]})
    elif k == "random_key":
        r = ctx.call({"op": "privkey", "random": True})
        ctx.ev()
        if "ok" not in r:
            ctx.viol("a randomly generated private key cannot be encoded / its public key derived", {"resp": str(r)[:200]})
            return
        o = r["ok"]
        x = int(o["bytes"], 16)
        comp = o["pub_compressed"]
        if not (1 <= x < ec.N) or len(o["bytes"]) != 64:
            ctx.viol("PrivateKey::from_random returned a scalar outside [1, n-1]", {"bytes": o["bytes"]})
            return
        Q = ec.mul_g(x)
        for name, got, exp in (("to_wif", o["wif"], ref_wif(x, comp)), ("to_public_key", o["pub"], ec.ser(Q, comp).hex()), ("get_point", o["point"], ec.ser(Q, comp).hex()), ("flipped", o["flipped"]["wif"], ref_wif(x, not comp))):
            ctx.ev()
            if got != exp:
                ctx.viol("randomly generated private key: accessor %s differs from the reference" % name, {"got": str(got)[:120], "exp": str(exp)[:120]})
        r2 = ctx.call({"op": "privkey", "wif": o["wif"]})
        ctx.ev()
        if "ok" not in r2 or (r2["ok"]["bytes"], r2["ok"]["pub"]) != (o["bytes"], o["pub"]):
            ctx.viol("randomly generated private key does not round-trip through WIF", {"resp": str(r2)[:200]})
    elif k == "netseq":
        h = bytes.fromhex(case["hash"])
        p0 = case["start_prefix"]
        rq = {"op": "addr", "then": case["steps"], "via_impl": case["impl"]}
        if case["from_string"]:
            rq["string"] = ref_addr(h, p0)
        else:
            rq["hash"] = case["hash"]
            rq["prefix"] = p0
        a = ctx.call(rq)
        ctx.ev()
        ao = a.get("ok")
        if ao is None or not isinstance(ao.get("preset_prefix"), int):
            ctx.viol("a sequence of set_chain_params calls on a valid address failed", {"resp": str(a)[:200], "steps": case["steps"]})
            return
        p = ao["preset_prefix"]  # the p2pkh byte of the LAST parameter set applied (read from the library's own ChainParams value)
        last = case["steps"][-1]
        if "prefix" in last and last["prefix"] != p:
            ctx.viol("harness: last prefix mismatch", {})
        ctx.hit("netseq_to_mainnet" if p == 0 and p0 != 0 else "netseq_other")
        if case["impl"]:
            ctx.hit("netseq_via_impl")
        s_ = ref_addr(h, p)
        if ao["string"].get("ok") != s_ or ao["hash"] != case["hash"]:
            ctx.viol("after a sequence of set_chain_params calls the address string is not Base58Check(last prefix || hash) (%s -> %s%s)" % ("non-mainnet" if p0 else "mainnet", "mainnet" if p == 0 else "non-mainnet", ", set_chain_params_impl" if case["impl"] else ""), {"got": str(ao["string"])[:100], "exp": s_, "steps": case["steps"]})
        for fld, what in (("reparse_eq", "the address parsed back from its own string"), ("serde_eq", "the address restored from its serde JSON form")):
            ctx.ev()
            ctx.hit("address_value_equality")
            if ao.get(fld, {}).get("ok") is not True:
                ctx.viol("after a sequence of set_chain_params calls the address is not == %s" % what, {"resp": str(ao.get(fld))[:200], "steps": case["steps"]})
        for fld in ("serde_json", "serde_cbor"):
            ctx.ev()
            got = ao[fld].get("ok")
            if got is None or got["string"] != s_ or got["hash"] != case["hash"]:
                ctx.viol("address does not round-trip through its %s encoding" % fld.replace("serde_", "serde ").upper().replace("SERDE", "serde"), {"got": str(ao[fld])[:200], "exp": s_})
    elif k == "preset":
        h = bytes.fromhex(case["hash"])
        a = ctx.call({"op": "addr", "hash": case["hash"], "preset": case["preset"]})
        ctx.ev()
        ao = a.get("ok")
        if ao is None or not isinstance(ao.get("preset_prefix"), int):
            ctx.viol("address with a preset network could not be built", {"resp": str(a)[:200]})
            return
        p = ao["preset_prefix"]
        s = ref_addr(h, p)
        if ao["string"].get("ok") != s or ao["hash"] != case["hash"]:
            ctx.viol("address under a preset network (ChainParams::%s) differs from Base58Check(prefix || hash)" % case["preset"], {"got": str(ao["string"])[:100], "exp": s})
        if ao["reparse"].get("ok") != {"string": s, "hash": case["hash"]}:
            ctx.viol("address under a preset network does not round-trip through its string (ChainParams::%s)" % case["preset"], {"got": str(ao["reparse"])[:200]})
    elif k == "addr_hash":
        h = bytes.fromhex(case["hash"])
        p = case["prefix"]
        zl = len(h) - len(h.lstrip(b"\x00"))
        if zl:
            ctx.hit("leading_zero_hash")
        if p:
            ctx.hit("prefix_nonzero")
        s = ref_addr(h, p)
        if len(s) <= 26:
            ctx.hit("address_of_26_characters")
        a = ctx.call({"op": "addr", "hash": case["hash"], "prefix": p})
        ctx.ev()
        ao = a.get("ok")
        if ao is None or ao["string"].get("ok") != s:
            ctx.viol("address string from a 20-byte hash differs from the reference", {"got": str(a)[:200], "exp": s})
            return
        b = ctx.call({"op": "addr", "string": s})
        ctx.ev()
        short = len(s) < 33
        if short:
            ctx.hit("short_address")
        if "ok" not in b:
            ctx.viol("valid address rejected (%s)" % ("shorter than 33 characters" if short else "usual length"), {"s": s, "resp": str(b.get("err", b.get("panic")))[:150]})
        elif b["ok"]["hash"] != case["hash"] or b["ok"]["string"].get("ok") != s or b["ok"]["locking"].get("ok") != (b"\x76\xa9\x14" + h + b"\x88\xac").hex():
            ctx.viol("address parsed from its string reports a different hash / string / locking script", {"s": s})
    elif k in ("addr_corrupt", "addr_len"):
        s = case["s"]
        payload = base58.check_decode(s)
        valid = payload is not None and len(payload) == 21
        b = ctx.call({"op": "addr", "string": s})
        ctx.ev()
        if valid:
            ctx.hit("corruption_still_valid")
            if "ok" not in b:
                ctx.viol("valid address rejected (%s)" % ("shorter than 33 characters" if len(s) < 33 else "usual length"), {"s": s})
        else:
            why = "bad character" if base58.decode(s) is None else "wrong checksum" if payload is None else "wrong payload length with a correct checksum"
            ctx.hit("reject_" + why.replace(" ", "_"))
            if "ok" in b:
                ctx.viol("invalid address accepted: %s" % why, {"s": s, "parsed": str(b["ok"]["hash"])})
            elif "panic" in b:
                ctx.note("address parser panics (C09): %s" % why)
    elif k == "raw_len":
        ctx.hit("raw_key_wrong_length")
        for via in ("bytes", "hex_str"):
            b = ctx.call({"op": "privkey", via: case["hex"]})
            ctx.ev()
            if "ok" in b:
                ctx.viol("raw private key of %d bytes accepted (PrivateKey::%s)" % (len(case["hex"]) // 2, "from_bytes" if via == "bytes" else "from_hex"), {"hex": case["hex"], "as": b["ok"]["bytes"]})
            elif "panic" in b:
                ctx.note("private key parser panics on a wrong length (C09)")
    elif k == "wif_corrupt":
        s = case["s"]
        payload = base58.check_decode(s)
        valid = False
        if payload is not None and payload[:1] == b"\x80":
            body = payload[1:]
            if len(body) == 32 or (len(body) == 33 and body[-1] == 1):
                valid = 1 <= int.from_bytes(body[:32], "big") < ec.N
        noclaim = payload is not None and payload[:1] != b"\x80"
        b = ctx.call({"op": "privkey", "wif": s})
        ctx.ev()
        if valid:
            if "ok" not in b:
                ctx.viol("from_wif rejects a valid encoding", {"wif": s})
        elif noclaim:
            ctx.note("wif with non-mainnet prefix (no claim)")
        else:
            why = "bad character" if base58.decode(s) is None else "wrong checksum" if payload is None else "key out of range" if len(payload) in (33, 34) and (len(payload) == 33 or payload[-1] == 1) else "wrong payload length with a correct checksum"
            ctx.hit("wif_reject_" + why.replace(" ", "_"))
            if "ok" in b:
                ctx.viol("invalid WIF accepted: %s" % why, {"wif": s})
            elif "panic" in b:
                ctx.note("from_wif panics (C09): %s" % why)
    elif k == "pub_candidate":
        b = bytes.fromhex(case["hex"])
        tag = b[0] if b else None
        if tag in (5, 6, 7):
            ctx.note("hybrid/compact SEC1 tag: no claim")
            return
        pt = ec.parse_pub(b)
        r = ctx.call({"op": "pubkey", "hex": case["hex"], "via": case["via"]})
        ctx.ev()
        if pt is None:
            ctx.hit("pub_offcurve" if len(b) in (33, 65) and tag in (2, 3, 4) else "pub_malformed")
            cls = "identity / all-zero" if not any(b[1:]) else "x >= p" if len(b) == 33 and tag in (2, 3) and int.from_bytes(b[1:], "big") >= ec.P else "not on the curve" if len(b) in (33, 65) and tag in (2, 3, 4) else "bad tag or length"
            if "ok" in r:
                ctx.viol("byte string that is not an encoding of a curve point accepted as public key: %s" % cls, {"hex": case["hex"], "to_decompressed": str(r["ok"]["to_decompressed"])[:150]})
        else:
            ctx.hit("pub_oncurve")
            if "ok" not in r:
                ctx.viol("valid SEC1 public key rejected", {"hex": case["hex"]})
                return
            po = r["ok"]
            if po["bytes"].get("ok") != case["hex"]:
                ctx.viol("public key bytes do not round-trip", {})
            if po["to_compressed"].get("ok", {}).get("bytes") != ec.ser(pt, True).hex() or po["to_decompressed"].get("ok", {}).get("bytes") != ec.ser(pt, False).hex():
                ctx.viol("to_compressed / to_decompressed differ from the reference point encodings", {"hex": case["hex"]})
    elif k == "unlock":
        x, y = int(case["x"], 16), int(case["other"], 16)
        pub = ec.ser(ec.mul_g(x), case["compressed"])
        other = ec.ser(ec.mul_g(y), case["other_compressed"])
        h160 = hashes.hash160(pub)
        p = case["prefix"]
        sg = ec.sign_det(x, hashes.sha256(b"m"))
        sig = ec.der_encode(sg[0], sg[1]) + bytes([case["flag"]])
        a = ctx.call({"op": "addr", "hash": h160.hex(), "prefix": p, "unlock_pub": pub.hex(), "unlock_sig": sig.hex()})
        ctx.ev()
        exp = wire.minimal_push(sig) + wire.minimal_push(pub)
        cls = "mainnet prefix" if p == 0 else "non-mainnet prefix"
        if p:
            ctx.hit("prefix_nonzero")
        got = a.get("ok", {}).get("unlocking", {})
        if got.get("ok") != exp.hex():
            ctx.viol("address does not accept its own public key when building the unlocking script (%s)" % cls, {"got": str(got)[:200], "exp": exp.hex()[:60]})
        # the same with a signature object as Transaction::sign hands it out (recovery info + signed preimage inside), made by a key
        # object in the same and in the other compression form than the public key bytes: the address still accepts its own key
        for kc in (case["compressed"], not case["compressed"]):
            a4 = ctx.call({"op": "addr", "hash": h160.hex(), "prefix": p, "unlock_pub": pub.hex(), "unlock_sig": sig.hex(), "unlock_key": case["x"], "unlock_key_compressed": kc, "unlock_legacy": bool(case["flag"] & 0x40 == 0)})
            ctx.ev()
            us = a4.get("ok", {}).get("unlocking_signed", {})
            if "ok" in us:
                ctx.hit("unlock_with_transaction_signature")
                if kc != case["compressed"]:
                    ctx.hit("unlock_signer_object_in_other_form")
                o4 = us["ok"]
                exp4 = wire.minimal_push(bytes.fromhex(o4["sig"])) + wire.minimal_push(pub)
                if o4.get("script") != exp4.hex():
                    ctx.viol("address does not accept its own public key when building the unlocking script from a Transaction::sign signature (%s, signer object %s)" % (cls, "in the same form" if kc == case["compressed"] else "in the other compression form"), {"got": str(o4)[:300]})
            elif "panic" in us:
                ctx.viol("building an unlocking script from a Transaction::sign signature panics", {"resp": str(us)[:200]})
        if hashes.hash160(other) != h160:
            a2 = ctx.call({"op": "addr", "hash": h160.hex(), "prefix": p, "unlock_pub": other.hex(), "unlock_sig": sig.hex()})
            ctx.ev()
            if "ok" in a2.get("ok", {}).get("unlocking", {}):
                ctx.viol("address accepts a foreign public key when building the unlocking script", {})
        # same key in the other compression form hashes differently and must be refused too
        flip = ec.ser(ec.mul_g(x), not case["compressed"])
        a3 = ctx.call({"op": "addr", "hash": h160.hex(), "prefix": p, "unlock_pub": flip.hex(), "unlock_sig": sig.hex()})
        ctx.ev()
        if "ok" in a3.get("ok", {}).get("unlocking", {}):
            ctx.viol("address accepts the other compression form of its key (different HASH160)", {})
