"""C06 — signature encodings (DER, DER+flag, compact) round-trip; recovery finds the signer; malformed DER rejected."""
from .. import gen
from ..ref import ec, hashes

ID = "C06"
RULE = (
    "cases: (r,s) pairs both produced by the library's signers and synthetic ones chosen so that the final DER byte takes each of the 14 sighash flag values and >=14 non-flag values, "
    "with 31/32/33-byte DER integers; serialised to DER, DER+each of the 14 flags, compact with each of the 8 headers, and parsed back through from_der / from_hex_der / "
    "SighashSignature::from_bytes / from_compact_bytes; key recovery from compact signatures vs the signer's SEC1 bytes and vs the reference recovery; malformed DER families and "
    "bad compact headers/lengths must be rejected. non-trivial = every distinct case"
)
ASSUMPTIONS = ["strict DER = BIP66 rules + 1 <= r,s < n (vf/ref/ec.py); only malformations that every strict parser rejects are generated", "high-S DER is not treated as malformed"]
NSHARDS = {"quick": 32, "thorough": 64}
BUDGET_S = {"quick": 200, "thorough": 1800}
EXTRA_BUILDS = {"thorough": ["rel"]}  # used by the generic release-build stage in core
MIN_HITS = {
    'quick': {"der_rt": 1312, "last_byte_is_flag": 552, "last_byte_not_flag": 759, "der_plus_flag": 15680, "compact_rt": 8960, "recover": 192, "der_bad": 11280, "compact_bad": 912},
    'thorough': {"der_rt": 103680, "last_byte_is_flag": 40459, "der_plus_flag": 1128960, "compact_rt": 645120, "recover": 23040, "der_bad": 817824, "compact_bad": 145920},
}
FLAGS = [0x40, 0x01, 0x02, 0x03, 0x80, 0x41, 0x42, 0x43, 0xC1, 0xC2, 0xC3, 0x81, 0x82, 0x83]
NONFLAGS = [0x00, 0x04, 0x05, 0x10, 0x3F, 0x44, 0x7F, 0x84, 0xC0, 0xC4, 0xFE, 0xFF, 0x30, 0x21]


def selftest():
    ec.selftest()


def synth_rs(r, last):
    """random in-range (r, s) whose s ends with byte `last` (so the DER encoding ends with it), with varied integer widths"""
    def pick(width_class):
        if width_class == 31:
            return r.randrange(1, 1 << 247)
        if width_class == 33:
            return r.randrange(1 << 255, ec.N)
        return r.randrange(1 << 248, 1 << 255)

    rr = pick(r.choice([31, 32, 33]))
    ss = (pick(r.choice([31, 32, 33])) & ~0xFF) | last
    if not 1 <= ss < ec.N:
        ss = (r.randrange(1 << 200, 1 << 250) & ~0xFF) | last
    if ss == 0:
        ss = 0x100 | last
    return rr, ss


def cases(ctx):
    r = ctx.rnd
    t = ctx.tier == "thorough"
    rounds = 60 if t else 2
    for _ in range(rounds):
        for last in FLAGS + NONFLAGS:
            rr, ss = synth_rs(r, last)
            yield {"k": "codec", "r": "%064x" % rr, "s": "%064x" % ss}
        for (rr, ss) in [(1, 1), (ec.N - 1, ec.N - 1), (1, ec.HALF_N), (ec.N - 1, ec.HALF_N + 1), (0x7F, 0x80), (0x80, 0x7F), (1 << 255, 1 << 248)]:
            yield {"k": "codec", "r": "%064x" % rr, "s": "%064x" % ss}
    for _ in range(600 if t else 12):
        x = r.choice([1, 2, ec.N - 1, ec.N - 2]) if r.random() < 0.3 else r.randrange(1, ec.N)
        yield {"k": "recover", "key": "%064x" % x, "compressed": r.random() < 0.5, "msg": gen.rbytes(r, r.choice([0, 1, 32, 100])).hex(), "hash": r.choice(["sha256", "sha256d"]), "mode": r.choice(["det", "det", "k", "rand"]), "reverse_k": r.random() < 0.3, "nonce": "%064x" % r.randrange(1, ec.N)}
    # signatures made over a crafted 32-byte digest (sign_digest): values at / above the group order, zero, all ones, leading zeros
    for dg in [ec.N, ec.N + 1, ec.N - 1, (1 << 256) - 1, 0, 1, 1 << 255, (1 << 256) - ec.N, 0xFF << 240][(ctx.shard % 3) :: 3] + ([r.getrandbits(256) | (1 << 255)] if t else []):
        yield {"k": "recover_digest", "key": "%064x" % r.randrange(1, ec.N), "compressed": r.random() < 0.5, "digest": "%064x" % dg}
    for _ in range(100 if t else 3):
        rr, ss = synth_rs(r, r.choice(FLAGS + NONFLAGS))
        good = ec.der_encode(rr, ss)
        yield {"k": "der_bad_family", "r": "%064x" % rr, "s": "%064x" % ss, "seed": r.getrandbits(30)}
        yield {"k": "compact_bad", "r": "%064x" % rr, "s": "%064x" % ss}


def judge(ctx, case):
    k = case["k"]
    ctx.nontrivial()
    if k == "codec":
        rr, ss = int(case["r"], 16), int(case["s"], 16)
        der = ec.der_encode(rr, ss)
        ctx.hit("der_rt")
        ctx.hit("last_byte_is_flag" if der[-1] in FLAGS else "last_byte_not_flag")
        o = ctx.call({"op": "sig_to", "r": case["r"], "s": case["s"]})
        ctx.ev()
        if "ok" not in o:
            ctx.viol("in-range (r,s) could not be turned into a signature object", {"resp": str(o)[:300]})
            return
        if o["ok"]["der"] != der.hex() or not o["ok"]["der_hex_eq"]:
            ctx.viol("to_der_bytes differs from the reference DER encoding", {"got": o["ok"]["der"], "exp": der.hex()})
        if (o["ok"]["r"], o["ok"]["s"]) != (case["r"], case["s"]) or not (o["ok"]["r_hex_eq"] and o["ok"]["s_hex_eq"]):
            ctx.viol("r()/s() accessors differ from the values the signature was built from", {})
        cls_ = "final DER byte equals a sighash flag value" if der[-1] in FLAGS else "final DER byte is not a flag value"
        for via in ("der", "hexder"):
            p = ctx.call({"op": "sig_from_der", "hex": der.hex(), "via": via})
            ctx.ev()
            if p.get("ok", {}).get("r") != case["r"] or p.get("ok", {}).get("s") != case["s"]:
                ctx.viol("parsing the DER serialisation back (%s) does not yield the same (r,s): %s" % ("from_der" if via == "der" else "from_hex_der", cls_), {"der": der.hex(), "resp": str(p.get("ok", p.get("err")))[:200]})
        for f in FLAGS:
            ctx.hit("der_plus_flag")
            df = der + bytes([f])
            p = ctx.call({"op": "sig_from_der", "hex": df.hex(), "via": "der"})
            ctx.ev()
            if p.get("ok", {}).get("r") != case["r"] or p.get("ok", {}).get("s") != case["s"]:
                ctx.viol("from_der(DER || flag) does not yield the same (r,s): %s" % cls_, {"der": df.hex(), "resp": str(p.get("ok", p.get("err")))[:200]})
            p2 = ctx.call({"op": "sig_from_der", "hex": df.hex(), "via": "sighash"})
            ctx.ev()
            if p2.get("ok", {}).get("bytes") != df.hex():
                ctx.viol("SighashSignature::from_bytes(DER || flag) does not re-serialise to the same bytes: %s" % cls_, {"der": df.hex(), "resp": str(p2.get("ok", p2.get("err")))[:200]})
            st = ctx.call({"op": "sig_to", "r": case["r"], "s": case["s"], "flag": f})
            ctx.ev()
            if st.get("ok", {}).get("der_flag") != df.hex():
                ctx.viol("SighashSignature::to_bytes is not DER || flag", {"flag": f})
        for hdr in range(27, 35):
            ctx.hit("compact_rt")
            c = bytes([hdr]) + bytes.fromhex(case["r"]) + bytes.fromhex(case["s"])
            p = ctx.call({"op": "sig_from_compact", "hex": c.hex(), "via_impl": bool(c[-1] & 1)})
            ctx.ev()
            po = p.get("ok", {})
            if (po.get("r"), po.get("s")) != (case["r"], case["s"]):
                ctx.viol("from_compact_bytes does not yield the same (r,s)", {"hdr": hdr, "resp": str(p.get("ok", p.get("err", p.get("panic"))))[:200]})
            elif po.get("compact") != c.hex() or not po.get("compact_hex_eq"):
                ctx.viol("compact signature does not re-serialise with the same recovery id / compression marker", {"hdr": hdr, "got": po.get("compact", "")[:2]})
            # explicit recovery info
            rec = hdr - 27
            st = ctx.call({"op": "sig_to", "r": case["r"], "s": case["s"], "recovery": [bool(rec & 1), bool(rec & 2), rec >= 4]})
            ctx.ev()
            if st.get("ok", {}).get("compact_with") != c.hex():
                ctx.viol("to_compact_bytes(explicit recovery info) has the wrong header byte", {"hdr": hdr, "got": str(st.get("ok", {}).get("compact_with"))[:2]})
    elif k == "recover_digest":
        ctx.hit("recover_from_crafted_digest")
        ctx.nontrivial()
        x = int(case["key"], 16)
        d = bytes.fromhex(case["digest"])
        if int.from_bytes(d, "big") >= ec.N:
            ctx.hit("digest>=group_order")
        s = ctx.call({"op": "ecdsa_sign", "mode": "digest", "key": case["key"], "compressed": case["compressed"], "msg": case["digest"], "hash": "none"})
        ctx.ev()
        if "ok" not in s:
            ctx.note("sign_digest refuses this digest (C05 decides whether it may)")
            return
        want = ec.ser(ec.mul_g(x), case["compressed"]).hex()
        for inner in (False, True):
            rd = ctx.call({"op": "recover", "compact": s["ok"]["compact"], "digest": case["digest"], "inner": inner})
            ctx.ev()
            if rd.get("ok", {}).get("pub") != want:
                ctx.viol("recovery from the digest the signature was made over does not return the signer's key (%s%s)" % ("digest value at or above the group order" if int.from_bytes(d, "big") >= ec.N else "digest below the group order", ", get_public_key_from_digest" if inner else ""), {"digest": case["digest"], "got": str(rd.get("ok", rd.get("err", rd.get("panic"))))[:200]})
    elif k == "recover":
        ctx.hit("recover")
        x = int(case["key"], 16)
        req = {"op": "ecdsa_sign", "mode": case["mode"], "key": case["key"], "compressed": case["compressed"], "msg": case["msg"], "hash": case["hash"]}
        if case["mode"] in ("det", "rand"):
            req["reverse_k"] = case["reverse_k"]
        if case["mode"] == "k":
            req["k"] = case["nonce"]
        s = ctx.call(req)
        ctx.ev()
        if "ok" not in s:
            ctx.viol("signing failed", {"resp": str(s)[:200]})
            return
        comp = s["ok"]["compact"]
        Q = ec.mul_g(x)
        want = ec.ser(Q, case["compressed"]).hex()
        hdr = int(comp[:2], 16)
        rec = hdr - 27
        m = bytes.fromhex(case["msg"])
        d = hashes.sha256(m) if case["hash"] == "sha256" else hashes.sha256d(m)
        z = int.from_bytes(d, "big") % ec.N
        rr, ss = int(s["ok"]["r"], 16), int(s["ok"]["s"], 16)
        if not (27 <= hdr <= 34) or (rec >= 4) != case["compressed"]:
            ctx.viol("compact header does not record the key-compression marker", {"hdr": hdr})
        elif ec.recover(z, rr, ss, bool(rec & 1), bool(rec & 2)) != Q:
            ctx.viol("recovery id in the compact signature does not lead the reference recovery to the signer's key", {"hdr": hdr})
        rc = ctx.call({"op": "recover", "compact": comp, "msg": case["msg"], "hash": case["hash"]})
        ctx.ev()
        if rc.get("ok", {}).get("pub") != want:
            ctx.viol("recover_public_key does not return the signer's public key in the recorded compression form", {"got": str(rc.get("ok", rc.get("err")))[:200], "want": want})
        rd = ctx.call({"op": "recover", "compact": comp, "digest": d.hex()})
        ctx.ev()
        if rd.get("ok", {}).get("pub") != want:
            ctx.viol("recover_public_key_from_digest does not return the signer's public key", {"got": str(rd.get("ok", rd.get("err", rd.get("panic"))))[:200]})
        # the high-S twin of the same signature: (r, n-s) with the y-parity bit of the header flipped recovers the same key
        cb_ = bytes.fromhex(comp)
        hdr_ = cb_[0]
        rec_ = (hdr_ - 27) & 3
        twin = bytes([hdr_ - rec_ + (rec_ ^ 1)]) + cb_[1:33] + (ec.N - int.from_bytes(cb_[33:], "big")).to_bytes(32, "big")
        for rq, what in (({"op": "recover", "compact": twin.hex(), "msg": case["msg"], "hash": case["hash"]}, "recover_public_key"), ({"op": "recover", "compact": twin.hex(), "digest": d.hex()}, "recover_public_key_from_digest"), ({"op": "recover", "compact": twin.hex(), "msg": case["msg"], "hash": case["hash"], "inner": True}, "get_public_key")):
            rt_ = ctx.call(rq)
            ctx.ev()
            ctx.hit("recover_high_s_twin")
            if rt_.get("ok", {}).get("pub") != want:
                ctx.viol("%s does not return the signer's key for the high-S form (r, n-s, parity flipped) of the signature" % what, {"got": str(rt_.get("ok", rt_.get("err", rt_.get("panic"))))[:200]})
        # the inner public functions behind the two wrappers
        for rq, what in (({"op": "recover", "compact": comp, "msg": case["msg"], "hash": case["hash"], "inner": True}, "get_public_key"), ({"op": "recover", "compact": comp, "digest": d.hex(), "inner": True}, "get_public_key_from_digest")):
            ri = ctx.call(rq)
            ctx.ev()
            if ri.get("ok", {}).get("pub") != want:
                ctx.viol("Signature::%s does not return the signer's public key" % what, {"got": str(ri.get("ok", ri.get("err", ri.get("panic"))))[:200]})
        # digests of another length that merely start with / contain the signed digest are different messages
        for alt, what in ((d + b"\x00", "digest followed by one byte"), (d + d, "digest repeated"), (d + gen.rbytes(ctx.rnd, 7), "digest followed by extra bytes"), (d[:31], "digest cut to 31 bytes"), (b"\x00" + d, "digest preceded by a zero byte"), (d[1:], "digest without its first byte")):
            for inner in (False, True):
                ra = ctx.call({"op": "recover", "compact": comp, "digest": alt.hex(), "inner": inner})
                ctx.ev()
                ctx.hit("recover_other_length_digest")
                if ra.get("ok", {}).get("pub") == want:
                    ctx.viol("recovery from a digest of another length returns the signer's key (%s%s)" % (what, ", get_public_key_from_digest" if inner else ""), {"digest": alt.hex()})
                elif "panic" in ra:
                    ctx.note("recovery from a digest of another length panics (C09)")
        r2 = ctx.call({"op": "recover", "compact": comp, "msg": (m + b"x").hex(), "hash": case["hash"]})
        ctx.ev()
        if r2.get("ok", {}).get("pub") == want:
            ctx.viol("recovery returns the signer's key for a different message", {})
        # DER / compact round trip of a library-produced signature
        p = ctx.call({"op": "sig_from_der", "hex": s["ok"]["der"], "via": "der"})
        ctx.ev()
        ctx.hit("der_rt")
        ctx.hit("last_byte_is_flag" if int(s["ok"]["der"][-2:], 16) in FLAGS else "last_byte_not_flag")
        if (p.get("ok", {}).get("r"), p.get("ok", {}).get("s")) != (s["ok"]["r"], s["ok"]["s"]):
            ctx.viol("parsing the DER serialisation back (from_der) does not yield the same (r,s): %s" % ("final DER byte equals a sighash flag value" if int(s["ok"]["der"][-2:], 16) in FLAGS else "final DER byte is not a flag value"), {"der": s["ok"]["der"]})
        p = ctx.call({"op": "sig_from_compact", "hex": comp})
        ctx.ev()
        if p.get("ok", {}).get("compact") != comp:
            ctx.viol("compact signature does not re-serialise with the same recovery id / compression marker", {})
    elif k == "der_bad_family":
        import random

        rr, ss = int(case["r"], 16), int(case["s"], 16)
        rnd = random.Random(case["seed"])
        good = ec.der_encode(rr, ss)
        ri, si = ec.der_int(rr), ec.der_int(ss)
        nonflag = rnd.choice(NONFLAGS)
        fam = {
            "empty": b"",
            "trailing non-flag byte": good + bytes([nonflag]),
            "two flag bytes": good + bytes([rnd.choice(FLAGS), rnd.choice(FLAGS)]),
            "flag then junk": good + bytes([rnd.choice(FLAGS), nonflag]),
            "sequence length too long": b"\x30" + bytes([good[1] + 1]) + good[2:],
            "sequence length too short": b"\x30" + bytes([good[1] - 1]) + good[2:],
            "wrong sequence tag": b"\x31" + good[1:],
            "wrong integer tag": good[:2] + b"\x03" + good[3:],
            "r length overruns": good[:3] + bytes([good[3] + 40]) + good[4:],
            "r = 0": b"\x30" + bytes([3 + len(si)]) + b"\x02\x01\x00" + si,
            "s = 0": b"\x30" + bytes([3 + len(ri)]) + ri + b"\x02\x01\x00",
            "r = n": ec.der_encode(ec.N, ss),
            "s = n": ec.der_encode(rr, ec.N),
            "r > n": ec.der_encode(ec.N + rnd.randrange(1, 1000), ss),
            "s > n (33 bytes)": ec.der_encode(rr, (1 << 256) - rnd.randrange(1, 1000)),
            "negative r": b"\x30" + bytes([len(si) + 34]) + b"\x02\x20" + (rr | (1 << 255)).to_bytes(32, "big") + si,
            "zero-length r": b"\x30" + bytes([2 + len(si)]) + b"\x02\x00" + si,
            "truncated": good[: rnd.randrange(1, len(good))],
            "only r": b"\x30" + bytes([len(ri)]) + ri,
            "three integers": b"\x30" + bytes([len(ri) + len(si) + 3]) + ri + si + b"\x02\x01\x01",
            "one byte": b"\x30",
            "flag only": bytes([rnd.choice(FLAGS)]),
            # BER forms that DER forbids
            "long-form sequence length (30 81 LL)": b"\x30\x81" + good[1:],
            "long-form sequence length with leading zero (30 82 00 LL)": b"\x30\x82\x00" + good[1:],
            "long-form integer length for r (02 81 LL)": b"\x30" + bytes([good[1] + 1]) + b"\x02\x81" + ri[1:] + si,
            "long-form integer length for s (02 81 LL)": b"\x30" + bytes([good[1] + 1]) + ri + b"\x02\x81" + si[1:],
            "indefinite sequence length (30 80 .. 00 00)": b"\x30\x80" + good[2:] + b"\x00\x00",
            "r with an unnecessary leading zero": b"\x30" + bytes([good[1] + 1]) + b"\x02" + bytes([ri[1] + 1]) + b"\x00" + ri[2:] + si if not (ri[2] & 0x80) else b"",
            "s with an unnecessary leading zero": b"\x30" + bytes([good[1] + 1]) + ri + b"\x02" + bytes([si[1] + 1]) + b"\x00" + si[2:] if not (si[2] & 0x80) else b"",
            "script push-length byte in front of the DER": bytes([len(good)]) + good,
            "script push-length byte in front of DER || flag": bytes([len(good) + 1]) + good + bytes([rnd.choice(FLAGS)]),
            "OP_PUSHDATA1 prefix in front of the DER": b"\x4c" + bytes([len(good)]) + good,
            "sequence followed by a zero byte": good + b"\x00",
            "leading zero byte before the sequence": b"\x00" + good,
        }
        for name, b in fam.items():
            if ec.der_parse_strict(b) is not None:
                continue
            for via in ("der", "hexder"):
                ctx.hit("der_bad")
                p = ctx.call({"op": "sig_from_der", "hex": b.hex(), "via": via})
                ctx.ev()
                if "ok" in p:
                    ctx.viol("malformed DER accepted: %s" % name, {"der": b.hex(), "via": via, "parsed": str(p["ok"])[:150]})
                elif "panic" in p:
                    ctx.note("malformed DER panics (C09): %s" % name)
                # the same malformed encoding followed by one sighash flag byte (from_der tolerates exactly DER || flag)
                if b and name not in ("flag only", "trailing non-flag byte", "two flag bytes", "flag then junk") and ec.der_parse_strict(b[:-1]) is None:
                    fb = b + bytes([rnd.choice(FLAGS)])
                    if ec.der_parse_strict(fb) is None and ec.der_parse_strict(fb[:-1]) is None:
                        ctx.hit("der_bad")
                        p2 = ctx.call({"op": "sig_from_der", "hex": fb.hex(), "via": via})
                        ctx.ev()
                        if "ok" in p2:
                            ctx.viol("malformed DER followed by a flag byte accepted: %s" % name, {"der": fb.hex(), "via": via})
        # bare DER (no flag byte) through SighashSignature::from_bytes: never a signature+flag, whatever its final byte happens to be
        ctx.hit("der_bad")
        pb = ctx.call({"op": "sig_from_der", "hex": good.hex(), "via": "sighash"})
        ctx.ev()
        if "ok" in pb:
            ctx.viol("SighashSignature::from_bytes accepts bare DER without a flag byte (%s)" % ("final DER byte equals a sighash flag value" if good[-1] in FLAGS else "final DER byte is not a flag value"), {"hex": good.hex()})
        # DER || flag || flag through SighashSignature::from_bytes: exactly one flag byte may follow the DER part
        for f1 in rnd.sample(FLAGS, 4):
            for f2 in rnd.sample(FLAGS, 2):
                ctx.hit("der_bad")
                p = ctx.call({"op": "sig_from_der", "hex": (good + bytes([f1, f2])).hex(), "via": "sighash"})
                ctx.ev()
                if "ok" in p:
                    ctx.viol("SighashSignature::from_bytes accepts DER followed by two flag bytes", {"hex": (good + bytes([f1, f2])).hex()})
        for name, b in fam.items():
            if ec.der_parse_strict(b) is not None:
                continue
            # the same malformed DER followed by a sighash flag byte, through SighashSignature::from_bytes
            for f in (0x41, 0x01, 0xC3):
                ctx.hit("der_bad")
                p = ctx.call({"op": "sig_from_der", "hex": (b + bytes([f])).hex(), "via": "sighash"})
                ctx.ev()
                if "ok" in p:
                    ctx.viol("SighashSignature::from_bytes accepts malformed DER followed by a flag byte: %s" % name, {"der": b.hex(), "flag": f})
    elif k == "compact_bad":
        body = bytes.fromhex(case["r"]) + bytes.fromhex(case["s"])
        bad = [(bytes([h]) + body, "header %s" % ("< 27" if h < 27 else "> 34")) for h in (0, 1, 26, 35, 36, 100, 154, 155, 156, 157, 158, 159, 200, 255)]
        bad += [(b"", "empty input"), (b"\x1f", "1 byte"), (bytes([31]) + body[:-1], "64 bytes"), (bytes([31]) + body[:31], "32 bytes"), (bytes([31]) + body + b"\x00", "66 bytes")]
        for b, name in bad:
            for build in (["chk", "rel"] if ctx.tier == "thorough" else ["chk"]):
                ctx.hit("compact_bad")
                p = ctx.call({"op": "sig_from_compact", "hex": b.hex(), "via_impl": bool(len(b) & 1) if b else False}, build=build)
                ctx.ev()
                if "ok" in p:
                    ctx.viol("invalid compact signature accepted (%s, %s build)" % (name, "overflow-checked" if build == "chk" else "release"), {"hex": b.hex()[:20]})
                elif "panic" in p:
                    ctx.note("invalid compact signature panics (C09): %s" % name)
