"""C12 — Bitcoin Signed Message sign/verify is complete and sound for all keys / networks."""
from .. import gen
from ..ref import ec, hashes, wire

ID = "C12"
RULE = (
    "cases: keys (edge + random) x both compression forms x message lengths {0,1,252,253,254,65535,65536,65537,100000} + random x address prefixes {0x00,0x6f,random}; "
    "signature compared bit-for-bit with the reference RFC 6979 signature over sha256d(varint(24)||magic||varint(len)||msg); verification through all four verifier entry points, "
    "directly and after a trip through the 65-byte compact encoding; must fail for another message, another key's address, and single-bit flips of message and signature. "
    "non-trivial = every distinct case"
)
ASSUMPTIONS = ["reference vf/ref/ec.py + hashlib", "BSM signing is modelled as deterministic (RFC 6979, non-reversed) over the magic-prefixed double-SHA256 digest"]
NSHARDS = {"quick": 32, "thorough": 64}
BUDGET_S = {"quick": 200, "thorough": 1800}
MIN_HITS = {
    'quick': {"sign": 256, "prefix_nonzero": 203, "len>=253": 82, "len>=65536": 35, "neg": 9729, "uncompressed": 122},
    'thorough': {"sign": 57753, "prefix_nonzero": 38383, "len>=253": 20520, "len>=65536": 244, "neg": 2216073, "uncompressed": 23074},
}
EDGE = [1, 2, 3, (ec.N - 1) // 2, (ec.N + 1) // 2, ec.N - 2, ec.N - 1]
MAGIC = b"Bitcoin Signed Message:\n"


def selftest():
    ec.selftest()


def frame(msg):
    return wire.cs_enc(len(MAGIC)) + MAGIC + wire.cs_enc(len(msg)) + msg


def unframe(b):
    """inner message if b is exactly frame(inner), else None"""
    pre = wire.cs_enc(len(MAGIC)) + MAGIC
    if not b.startswith(pre):
        return None
    try:
        n, off, _ = wire.cs_dec(b, len(pre))
    except Exception:
        return None
    return b[off:] if len(b) - off == n else None


def digest(msg):
    return hashes.sha256d(wire.cs_enc(len(MAGIC)) + MAGIC + wire.cs_enc(len(msg)) + msg)


def cases(ctx):
    yield from big_cases(ctx)
    # every network prefix byte once per run (short message), spread over the shards
    for p_ in range(ctx.shard, 256, ctx.nshards):
        yield {"k": "bsm", "x": "%064x" % ctx.rnd.randrange(1, ec.N), "compressed": bool(p_ & 1), "msg": gen.rbytes(ctx.rnd, 12).hex(), "prefix": p_, "other": "%064x" % ctx.rnd.randrange(1, ec.N), "nonce": None, "seed": ctx.rnd.getrandbits(30), "framed": False}
    r = ctx.rnd
    t = ctx.tier == "thorough"
    lens = [0, 1, 252, 253, 254, 65535, 65536, 65537, 100000]
    for i in range(1500 if t else 8):
        x = r.choice(EDGE) if r.random() < 0.3 else r.randrange(1, ec.N)
        L = lens[i % len(lens)] if i < 2 * len(lens) and (t or i < 9) else r.choice([5, 20, 100, 300, r.randrange(0, 1000)])
        yield {"k": "bsm", "x": "%064x" % x, "compressed": r.random() < 0.6, "msg": gen.rbytes(r, L).hex(), "prefix": [0, 0x6F, 0x05, 0xC4, 0xFF, 0x80][i % 6] if i % 2 == 0 else r.choice([0, 0x6F, r.randrange(256)]), "other": "%064x" % r.randrange(1, ec.N), "nonce": (("%064x" % x) if r.random() < 0.3 else ("%064x" % r.randrange(1, ec.N))) if r.random() < 0.3 else None, "seed": r.getrandbits(30), "framed": i % 4 == 3}


def big_cases(ctx):
    """thorough only: messages whose length needs the 5-byte (>= 65536 is covered above) and the 9-byte compact-size form (>= 2^32 bytes,
    ~13 GiB peak in the driver), generated inside the driver"""
    if ctx.shard == 3:
        yield {"k": "bsm_big", "x": "%064x" % ctx.rnd.randrange(1, ec.N), "len": (1 << 25) + 1}
    if ctx.tier == "thorough" and ctx.shard == 1:
        yield {"k": "bsm_big", "x": "%064x" % ctx.rnd.randrange(1, ec.N), "len": (1 << 32) + 5}
    if ctx.tier == "thorough" and ctx.shard == 2:
        yield {"k": "bsm_big", "x": "%064x" % ctx.rnd.randrange(1, ec.N), "len": (1 << 24) + 3}


def judge_big(ctx, case):
    import hashlib

    n = case["len"]
    x = int(case["x"], 16)
    ctx.hit("message>=2^32" if n >= 1 << 32 else "message>32MiB" if n > 1 << 25 else "message>=2^24")
    ctx.nontrivial()
    h = hashlib.sha256()
    h.update(wire.cs_enc(len(MAGIC)) + MAGIC + wire.cs_enc(n))
    pat = bytes((31 * i + 7) & 0xFF for i in range(256)) * 4096  # 1 MiB, period 256
    left = n
    while left > 0:
        take = min(left, len(pat))
        h.update(pat[:take])
        left -= take
    d = hashlib.sha256(h.digest()).digest()
    r = ctx.call({"op": "bsm_sign", "key": case["x"], "compressed": True, "msg_gen": {"len": n}, "guard": 6 * n + (256 << 20)}, watchdog=1800)
    ctx.ev()
    if "alloc_guard" in r or "death" in r or "timeout" in r:
        ctx.note("very long message: the probe hit a harness limit (no verdict)")
        return
    if "ok" not in r:
        ctx.viol("BSM signing of a very long message failed", {"len": n, "resp": str(r)[:200]})
        return
    # ... and verified, against the signer's address
    pubb = ec.ser(ec.mul_g(x), True)
    v = ctx.call({"op": "bsm_verify", "msg_gen": {"len": n}, "compact": r["ok"]["compact"], "addr_hash": hashes.hash160(pubb).hex(), "prefix": 0, "guard": 6 * n + (256 << 20)}, watchdog=1800)
    ctx.ev()
    if "ok" in v and "bsm_verify" in v["ok"] and not all_true(v["ok"]):
        ctx.viol("BSM verification of a genuine signature over a very long message fails (%s)" % ("length >= 2^32" if n >= 1 << 32 else "length above 32 MiB" if n > 1 << 25 else "length >= 2^24"), {"len": n, "resp": str(v["ok"])[:300]})
    e = ec.sign_det(x, d)
    if (int(r["ok"]["r"], 16), int(r["ok"]["s"], 16)) != (e[0], e[1]):
        ctx.viol("BSM signature over a very long message is not the reference signature over sha256d(magic-prefixed, length-prefixed message) (%s)" % ("length >= 2^32" if n >= 1 << 32 else "length >= 2^24"), {"len": n})


def all_true(o):
    return o["bsm_verify"].get("ok") is True and o["bsm_is_valid"].get("ok") is True and o["addr_verify"].get("ok") is True and o["addr_is_valid"].get("ok") is True


def any_true(o):
    return o["bsm_verify"].get("ok") is True or o["bsm_is_valid"].get("ok") is True or o["addr_verify"].get("ok") is True or o["addr_is_valid"].get("ok") is True


def judge(ctx, case):
    import random

    if case["k"] == "bsm_big":
        return judge_big(ctx, case)

    rnd = random.Random(case["seed"])
    x = int(case["x"], 16)
    comp = case["compressed"]
    m = bytes.fromhex(case["msg"])
    if case.get("seed", 0) % 5 == 1 and not case.get("framed"):
        m = [b"\xef\xbb\xbf", b"\n", b" ", b"\x00", b"\r\n"][case["seed"] % 25 // 5] + m + [b"", b"\n", b"\r\n", b" ", b"\x00"][case["seed"] % 125 // 25]
        case = dict(case, msg=m.hex())
        ctx.hit("message_with_text_like_edges")
    if case.get("framed"):
        # the message IS a complete, well-formed signed-message preimage of another message
        m = frame(m)
        case = dict(case, msg=m.hex())
        ctx.hit("message_is_itself_framed")
    if case["nonce"] and case["nonce"] == case["x"]:
        ctx.hit("nonce_equals_key")
    p = case["prefix"]
    ctx.nontrivial()
    ctx.hit("sign")
    if p:
        ctx.hit("prefix_nonzero")
    if not comp:
        ctx.hit("uncompressed")
    if len(m) >= 253:
        ctx.hit("len>=253")
    if len(m) >= 65536:
        ctx.hit("len>=65536")
    Q = ec.mul_g(x)
    pub = ec.ser(Q, comp)
    h160 = hashes.hash160(pub)
    d = digest(m)
    z = int.from_bytes(d, "big") % ec.N
    req = {"op": "bsm_sign", "key": case["x"], "compressed": comp, "msg": case["msg"], "addr_hash": h160.hex(), "prefix": p}
    if case["seed"] % 3 == 0:
        req["warm"] = True  # the key object was used in the other compression form before being switched to this one
        ctx.hit("key_object_used_before_switching_form")
    if case["nonce"]:
        req["k"] = case["nonce"]
    neg_first = case["seed"] % 2 == 0
    if neg_first:
        req["skip_verify"] = True
    s = ctx.call(req)
    ctx.ev()
    netcls = "mainnet prefix" if p == 0 else "non-mainnet prefix"
    if neg_first and "ok" in s:
        # the very first check of these signature bytes on this thread is a NEGATIVE one (another message), the genuine check follows
        ctx.hit("negative_check_first")
        w0 = ctx.call({"op": "bsm_verify", "msg": (m + b"?").hex(), "compact": s["ok"]["compact"], "addr_hash": h160.hex(), "prefix": p})
        ctx.ev()
        if "ok" in w0 and "bsm_verify" in w0["ok"] and any_true(w0["ok"]):
            ctx.viol("BSM verification succeeds for a different message", {"resp": str(w0["ok"])[:300]})
    if "ok" not in s:
        ctx.viol("BSM signing failed for valid arguments", {"resp": str(s)[:200]})
        return
    o = s["ok"]
    rr, ss = int(o["r"], 16), int(o["s"], 16)
    e = ec.sign_with_k(x, z, int(case["nonce"], 16)) if case["nonce"] else ec.sign_det(x, d)
    if (rr, ss) != (e[0], e[1]):
        ctx.viol("BSM signature is not the reference signature over sha256d(magic-prefixed, length-prefixed message)", {"len": len(m)})
    if not ec.verify(Q, z, rr, ss):
        ctx.viol("BSM signature does not verify under the signer's key against the reference digest", {"len": len(m)})
    if case["nonce"]:
        # the very next request on this thread: the SAME key and explicit nonce, another message (and then the first message again):
        # the result depends on the arguments alone, not on what was signed before
        ctx.hit("same_key_and_nonce_next_message")
        for m2 in (m + b"!", m):
            s2 = ctx.call({"op": "bsm_sign", "key": case["x"], "compressed": comp, "msg": m2.hex(), "addr_hash": h160.hex(), "prefix": p, "k": case["nonce"]})
            ctx.ev()
            z2 = int.from_bytes(digest(m2), "big") % ec.N
            e2 = ec.sign_with_k(x, z2, int(case["nonce"], 16))
            if "ok" not in s2:
                if e2 is not None:
                    ctx.viol("BSM signing with an explicit nonce fails when the previous request used the same key and nonce for another message", {"resp": str(s2)[:200]})
            elif e2 is not None and (int(s2["ok"]["r"], 16), int(s2["ok"]["s"], 16)) != (e2[0], e2[1]):
                ctx.viol("BSM signature with an explicit nonce differs from the reference when the previous request used the same key and nonce", {"len": len(m2)})
    hdr = int(o["compact"][:2], 16)
    if hdr != 27 + (1 if e[2] else 0) + (2 if e[3] else 0) + (4 if comp else 0):
        ctx.viol("BSM compact header is not 27 + recid + 4*compressed", {"hdr": hdr})
    ctx.ev()
    if o.get("key_address_hash", {}).get("ok") != h160.hex():
        ctx.viol("the address the library derives from the signing key object is not HASH160 of the key in its current form%s" % (" (key object used in the other form before)" if req.get("warm") else ""), {"got": str(o.get("key_address_hash"))[:100], "exp": h160.hex()})
    if not neg_first and o.get("verify_own_address", {}).get("ok") is not True:
        ctx.viol("BSM verification fails against the address derived from the signing key object itself%s" % (" (key object used in the other form before)" if req.get("warm") else ""), {"resp": str(o.get("verify_own_address"))[:200]})
    if not neg_first and o["verify_direct"].get("ok") is not True:
        ctx.viol("BSM verification (in-memory signature) fails against the signer's own address (%s)" % netcls, {"resp": str(o["verify_direct"])[:200]})
    v = ctx.call({"op": "bsm_verify", "msg": case["msg"], "compact": o["compact"], "addr_hash": h160.hex(), "prefix": p})
    ctx.ev()
    if "ok" not in v or "bsm_verify" not in v["ok"]:
        ctx.viol("compact BSM signature could not be parsed back", {"resp": str(v)[:200]})
        return
    if not all_true(v["ok"]):
        ctx.viol("BSM verification after the compact round trip fails against the signer's own address (%s)" % netcls, {"resp": str(v["ok"])[:300]})
    # also through the address *string*
    vs = ctx.call({"op": "bsm_verify", "msg": case["msg"], "compact": o["compact"], "address": __import__("vf.ref.base58", fromlist=["x"]).check_encode(bytes([p]) + h160)})
    ctx.ev()
    if "ok" in vs and "bsm_verify" in vs["ok"] and not all_true(vs["ok"]):
        ctx.viol("BSM verification fails against the signer's address parsed from its string (%s)" % netcls, {})

    def neg(what, msg_hex, compact_hex, hh):
        ctx.hit("neg")
        w = ctx.call({"op": "bsm_verify", "msg": msg_hex, "compact": compact_hex, "addr_hash": hh, "prefix": p})
        ctx.ev()
        if "ok" in w and "bsm_verify" in w["ok"] and any_true(w["ok"]):
            ctx.viol("BSM verification succeeds for %s" % what, {"resp": str(w["ok"])[:300]})

    neg("a different message", (m + b"!").hex(), o["compact"], h160.hex())
    # the genuine message again right after a failed attempt with the SAME signature bytes (state keyed on the signature alone)
    v2 = ctx.call({"op": "bsm_verify", "msg": case["msg"], "compact": o["compact"], "addr_hash": h160.hex(), "prefix": p})
    ctx.ev()
    if "ok" not in v2 or "bsm_verify" not in v2["ok"] or not all_true(v2["ok"]):
        ctx.viol("BSM verification of a genuine signature fails right after the same signature was checked against another message", {"resp": str(v2.get("ok", v2))[:300]})
    # text-transport neighbours of the message: byte order mark, line ends, blanks, NUL in front of / behind it, and removed from it
    for pre_, what_ in ((b"\xef\xbb\xbf", "a UTF-8 byte order mark"), (b"\n", "a line feed"), (b" ", "a blank"), (b"\x00", "a NUL byte"), (b"\xff\xfe", "a UTF-16 byte order mark")):
        neg("the message preceded by %s" % what_, (pre_ + m).hex(), o["compact"], h160.hex())
        neg("the message followed by %s" % what_, (m + pre_).hex(), o["compact"], h160.hex())
        if m.startswith(pre_) and len(m) > len(pre_):
            neg("the message without its leading %s" % what_, m[len(pre_) :].hex(), o["compact"], h160.hex())
    # framing is not idempotent: the framed form of the message, and the message with one framing layer removed, are different messages
    neg("the message wrapped in one more layer of magic/length framing", frame(m).hex(), o["compact"], h160.hex())
    inner = unframe(m)
    if inner is not None:
        neg("the message with its own framing layer removed", inner.hex(), o["compact"], h160.hex())
    neg("the message preceded by the magic prefix only", (wire.cs_enc(len(MAGIC)) + MAGIC + m).hex(), o["compact"], h160.hex())
    if m:
        neg("a truncated message", m[:-1].hex(), o["compact"], h160.hex())
    other = ec.ser(ec.mul_g(int(case["other"], 16)), comp)
    neg("an address derived from another key", case["msg"], o["compact"], hashes.hash160(other).hex())
    neg("the address of the same key in the other compression form", case["msg"], o["compact"], hashes.hash160(ec.ser(Q, not comp)).hex())
    # the OTHER key for which the same (r, s) is a valid signature of this message: recovery with the y-parity bit inverted
    alt = ec.recover(z, rr, ss, not e[2], e[3])
    if alt is not None and alt != Q:
        for c2 in (comp, not comp):
            neg("the address of the key recovered with the other y-parity", case["msg"], o["compact"], hashes.hash160(ec.ser(alt, c2)).hex())
        ctx.hit("alt_parity_key")
    cb = bytes.fromhex(o["compact"])
    # every single-bit change of the header byte (recovery id bits, compression marker, the rest)
    for hb in range(8):
        fl = bytearray(cb)
        fl[0] ^= 1 << hb
        neg("a signature with header bit %d flipped" % hb, case["msg"], bytes(fl).hex(), h160.hex())
    for _ in range(8):
        bit = rnd.randrange(65 * 8)
        fl = bytearray(cb)
        fl[bit // 8] ^= 1 << (bit % 8)
        neg("a signature with one bit flipped (%s)" % ("header" if bit < 8 else "r" if bit < 33 * 8 else "s"), case["msg"], bytes(fl).hex(), h160.hex())
    if m:
        for _ in range(4):
            bit = rnd.randrange(len(m) * 8)
            fl = bytearray(m)
            fl[bit // 8] ^= 1 << (bit % 8)
            neg("a message with one bit flipped", bytes(fl).hex(), o["compact"], h160.hex())
