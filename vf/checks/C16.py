"""C16 — the interpreter is total: every step gives a state or an error; stepping equals run; errors leave the last state."""
import itertools

import zlib

from .. import gen
from ..ref import ec, hashes, interp, wire
from . import C09, C14

ID = "C16"
RULE = (
    "cases: (a) the C14 bounded-exhaustive programs, (b) every one of the 256 opcode byte values the parser accepts on stacks of depth 0..4, (c) random byte strings and random token programs "
    "over ALL opcodes (reserved, disabled, template pseudo-opcodes, signature opcodes without a transaction), hostile operands (negative / huge indices, sizes, shift counts, zero divisors), "
    "(d) constructed scripts through from_script_bits: flat IF/ELSE/ENDIF bits, Coinbase bits, conditional bits with VERIF codes, empty/missing branches, mismatched PUSHDATA codes, 100 KB pushes, "
    "(e) transaction-bound execution with and without locking script / value and CHECKSIG-family opcodes on garbage keys, signatures and counts. Each program is single-stepped (interpreter A) "
    "under catch_unwind with a logical step bound of (flattened bit count + 1), and run to completion on a fresh interpreter B. non-trivial = distinct program with >=1 script bit"
)
ASSUMPTIONS = [
    "termination is decided by the logical step bound, never by wall-clock (the watchdog only yields 'inconclusive')",
    "memory growth (e.g. OP_NUM2BIN with a huge size) is not part of this property: allocation-guard trips are recorded as informational",
]
NSHARDS = {"quick": 64, "thorough": 128}
BUDGET_S = {"quick": 240, "thorough": 2400}
EXTRA_BUILDS = {"thorough": ["rel", "asan"]}
GENERIC_REL = False  # own release stage below
MIN_HITS = {
    'quick': {"program": 154861, "allbytes": 1280, "random_tokens": 1920, "constructed": 906, "tx_bound": 448, "lib_err": 26196, "lib_ok": 127841, "post_error_state_checked": 26196, "step_vs_run": 154037},
    'thorough': {"program": 1289576, "allbytes": 1536, "random_tokens": 614400, "constructed": 153739, "tx_bound": 76800, "lib_err": 794134, "lib_ok": 425927, "step_vs_run": 1220062},
}
HOSTILE = [b"", b"\x00", b"\x80", b"\x01", b"\x81", b"\x02", b"\x7f", b"\xff", b"\xff\xff\xff\x7f", b"\xff\xff\xff\xff", b"\x00\x00\x00\x80\x00", b"\xff" * 9, b"\x01\x00\x00\x00\x00\x00", bytes(33), b"\x02" + bytes(32), bytes(71), b"\x30\x06\x02\x01\x01\x02\x01\x01\x41"]


def selftest():
    interp.selftest()


def bits_of(toks):
    """flat reference tokens -> driver 'bits' JSON (flat; conditionals as plain opcode bits)"""
    out = []
    for t in toks:
        if t[0] == "op":
            out.append({"op": t[1]})
        elif t[0] == "push":
            out.append({"push": t[1].hex()})
        else:
            out.append({"pd": t[1], "data": t[2].hex()})
    return out


def count_bits(bits):
    n = 0
    for b in bits:
        n += 1
        if "if" in b:
            n += count_bits(b["pass"]) + (count_bits(b["fail"]) if b.get("fail") is not None else 0)
    return n


def rnd_bits(r, n, depth=0):
    out = []
    for _ in range(n):
        x = r.random()
        if x < 0.12 and depth < 4:
            out.append({"if": r.choice([99, 100, 101, 102]), "pass": rnd_bits(r, r.randrange(0, 4), depth + 1), "fail": (rnd_bits(r, r.randrange(0, 4), depth + 1) if r.random() < 0.5 else None)})
        elif x < 0.2:
            out.append({"op": r.choice([99, 100, 103, 104, 101, 102])})
        elif x < 0.25:
            out.append({"cb": gen.rbytes(r, r.choice([0, 1, 40])).hex()})
        elif x < 0.32:
            out.append({"pd": r.choice([76, 77, 78, 147, 0, 172]), "data": gen.rbytes(r, r.choice([0, 1, 5, 80])).hex()})
        elif x < 0.5:
            out.append({"push": (r.choice(HOSTILE) if r.random() < 0.7 else gen.rbytes(r, r.choice([1, 76, 300]))).hex()})
        else:
            out.append({"op": r.choice(wire.LIB_OPCODES)})
    return out


def cases(ctx):
    r = ctx.rnd
    S, N = ctx.shard, ctx.nshards
    t = ctx.tier == "thorough"
    k = 0
    # (a) C14's exhaustive programs
    for tag, toks in C14.all_exhaustive():
        k += 1
        if k % N == S:
            yield {"k": "script", "hex": wire.detok(toks).hex(), "tag": "c14exh"}
    # (b) every opcode byte on stacks of depth 0..4
    for c in range(256):
        for d in range(0, 5):
            k += 1
            if k % N != S:
                continue
            for st in ([HOSTILE[(c + i * 3 + d) % len(HOSTILE)] for i in range(d)], [b"\x01", b"\x02", b"\x03", b"\x02"][:d]):
                body = bytes([c]) if not (1 <= c <= 78) else bytes([c]) + bytes(min(c, 75) if c <= 75 else {76: 1, 77: 2, 78: 4}[c])
                yield {"k": "script", "hex": (wire.detok([interp.push_of(v) for v in st]) + body).hex(), "tag": "allbytes"}
    if S == 0:
        ctx.exhaustive.append("all 256 opcode byte values x stack depth 0..4 x two operand fillings; plus the complete C14 exhaustive program set re-run under the step-vs-run monitor")
    # (c) random tokens over all opcodes with hostile operands, unsteered
    for _ in range(8000 if t else 60):
        n = r.choice([1, 2, 3, 5, 8, 15, 40])
        toks = []
        for _ in range(n):
            x = r.random()
            if x < 0.4:
                toks.append(interp.push_of(r.choice(HOSTILE) if r.random() < 0.75 else gen.rbytes(r, r.choice([1, 2, 4, 33, 65, 72]))))
            else:
                toks.append(("op", r.choice(wire.PLAIN_OPCODES)))
        if r.random() < 0.3:
            j = r.randrange(len(toks) + 1)
            toks[j:j] = [("op", r.choice([99, 100, 101, 102]))]
            toks.append(("op", 104))
        yield {"k": "script", "hex": wire.detok(toks).hex(), "tag": "random_tokens"}
    for _ in range(2000 if t else 30):
        yield {"k": "script", "hex": gen.rbytes(r, r.choice([1, 2, 3, 5, 10, 30])).hex(), "tag": "random_bytes"}
    # (d) constructed scripts
    for _ in range(2000 if t else 25):
        yield {"k": "bits", "bits": rnd_bits(r, r.choice([1, 2, 4, 8, 16])), "tag": "constructed"}
    if S % 16 == 1:
        # stacks of more than 100 MB: a 50-byte element doubled 22 times, then an operation that must fail (so that the post-error state is observed)
        yield {"k": "script", "hex": (bytes([50]) + bytes(range(50)) + b"\x76\x7e" * 22 + b"\x6b\x6c\x6c").hex(), "tag": "huge_stack", "compact": True}
    if S % 16 == 8:
        # a conditional whose predicate is a ~800 KB / ~1.6 MB element (built by doubling), then something that fails
        for dbl in (14, 15):
            for opn in (99, 100):
                yield {"k": "script", "hex": (bytes([50]) + bytes(range(50)) + b"\x76\x7e" * dbl + bytes([opn]) + b"\x51\x68\x6b\x6c\x6c").hex(), "tag": "huge_predicate", "compact": True}
    if S % 16 in (3, 11):
        # conditionals whose TAKEN branch has 10^5 .. 4*10^6 elements (log-spaced): the first few steps only - a branch of any size is
        # entered like a small one, and if the library refuses it, the stacks are still those of the last returned state
        for ne in ((100000, 1000000, 2100000) if S % 16 == 3 else (300000, 4000000)):
            for opn, pred in ((99, 0x51), (100, 0x00)):
                yield {"k": "huge_branch", "n": ne, "opener": opn, "pred": pred, "tag": "huge_branch"}
    if S % 16 == 0:
        yield {"k": "bits", "bits": [{"push": "ab" * 100000}, {"op": 118}, {"op": 126}, {"op": 130}], "tag": "constructed"}
        yield {"k": "bits", "bits": [{"if": 99, "pass": [], "fail": None}], "tag": "constructed"}
        yield {"k": "bits", "bits": [{"op": 81}] + [{"if": 99, "pass": [{"op": 81}], "fail": []}] * 50, "tag": "constructed"}
        yield {"k": "bits", "bits": [{"cb": "00"}], "tag": "constructed"}
        # a hand-built conditional element whose opening code is not a conditional opcode at all
        for code in (97, 118, 0, 81, 103, 104, 172, 255):
            for pre in ([], [{"op": 81}], [{"op": 0}]):
                yield {"k": "bits", "bits": pre + [{"if": code, "pass": [{"op": 82}], "fail": [{"op": 83}]}, {"op": 84}], "tag": "constructed"}
        # the constructor that takes (transaction, input index, element list) with an index that does not exist
        dtx = wire.tx_encode({"version": 1, "ins": [{"txid_wire": b"\x44" * 32, "vout": 0, "script": b"", "seq": 0}], "outs": [], "locktime": 0}).hex()
        for txin_ in (0, 1, 5, 2**32):
            for bits_ in ([{"op": 81}, {"op": 82}, {"op": 147}], [{"op": 81}, {"if": 99, "pass": [{"op": 85}], "fail": None}], [{"op": 81}, {"op": 105}, {"op": 0}, {"op": 105}], [{"push": "3006020101020101" + "41"}, {"push": "02" + "11" * 32}, {"op": 172}]):
                yield {"k": "ctor", "tx": dtx, "txin": txin_, "bits": bits_, "tag": "ctor_with_index", "nbits": 6}
        # hand-built PUSHDATA elements whose payload does not fit the length field of their opcode (only from_script_bits can make these),
        # followed by something that fails, and in the middle of a program
        for code, ln in ((76, 256), (76, 300), (77, 65536), (76, 0), (78, 1), (77, 255)):
            yield {"k": "bits", "bits": [{"op": 81}, {"pd": code, "data": "ab" * ln}, {"op": 135}], "tag": "constructed"}
            yield {"k": "bits", "bits": [{"pd": code, "data": "cd" * ln}], "tag": "constructed"}
            yield {"k": "bits", "bits": [{"if": 99, "pass": [{"pd": code, "data": "ef" * ln}], "fail": None}], "tag": "constructed"}
            yield {"k": "bits", "bits": [{"op": 81}, {"if": 99, "pass": [{"pd": code, "data": "ef" * ln}, {"op": 105}], "fail": None}, {"op": 147}], "tag": "constructed"}
        yield {"k": "bits", "bits": [{"op": 103}, {"op": 104}, {"op": 99}], "tag": "constructed"}
    # (e) transaction-bound
    x = r.randrange(1, ec.N)
    pub = ec.ser(ec.mul_g(x), True)
    for _ in range(1000 if t else 14):
        ni = r.choice([1, 2, 3])
        tx = gen.gen_tx(r, ni, r.choice([0, 1, 2]), coinbase=False, script_kw={"n_tokens": 0})
        idx = r.randrange(ni)
        garbage = [b"", b"\x00", pub, pub[:-1], b"\x02" + bytes(32), bytes(33), gen.rbytes(r, 33), gen.rbytes(r, 65), bytes(71) + b"\x41", b"\x30\x06\x02\x01\x01\x02\x01\x01\x41", b"\x30\x06\x02\x01\x01\x02\x01\x01", b"\x41", b"\x30\x06\x02\x01\x01\x02\x01\x01\x04", gen.rbytes(r, 72), b"\x01", b"\x02", b"\x03", b"\x81", b"\xff\xff\xff\x7f", b"\x14"]
        un = [interp.push_of(r.choice(garbage)) for _ in range(r.randrange(0, 6))]
        lk = [interp.push_of(r.choice(garbage)) for _ in range(r.randrange(0, 4))] + [("op", r.choice([172, 173, 174, 175, 171, 118, 169, 136]))] + ([("op", r.choice([172, 174, 175, 173]))] if r.random() < 0.4 else [])
        tx["ins"][idx]["script"] = wire.detok(un)
        ext = [None] * ni
        mode = r.randrange(4)
        e = {}
        if mode in (0, 1):
            e["locking"] = wire.detok(lk).hex()
        if mode in (0, 2):
            e["satoshis"] = gen.u64(r)
        if mode == 3:
            tx["ins"][idx]["script"] = wire.detok(un + lk)
        ext[idx] = e or None
        yield {"k": "tx", "tx": wire.tx_encode(tx).hex(), "idx": idx, "ext": ext, "tag": "tx_bound", "nbits": len(un) + len(lk)}
    # (f) transaction-bound with structure: signature opcodes and code separators inside / after conditionals whose predicates are
    # constants, so that branches really are taken and the separator bookkeeping runs after the executing script has been rearranged
    sig_like = b"\x30\x06\x02\x01\x01\x02\x01\x01\x41"
    for _ in range(1500 if t else 24):
        ni = r.choice([1, 2])
        tx = gen.gen_tx(r, ni, r.choice([0, 1, 2]), coinbase=False, script_kw={"n_tokens": 0})
        idx = r.randrange(ni)
        body = []
        for _b in range(r.randrange(1, 5)):
            x = r.random()
            inner = [r.choice([("op", 171), ("op", 97), ("op", 81), ("op", 117), interp.push_of(pub), interp.push_of(sig_like), ("op", 172), ("op", 174)]) for _ in range(r.randrange(0, 4))]
            if x < 0.6:
                blk = [("op", r.choice([81, 81, 0])), ("op", r.choice([99, 100]))] + inner
                if r.random() < 0.5:
                    blk += [("op", 103)] + [r.choice([("op", 171), ("op", 97), ("op", 81)]) for _ in range(r.randrange(0, 3))]
                blk += [("op", 104)]
                body += blk
            else:
                body += inner
        lk = body + [interp.push_of(sig_like), interp.push_of(pub), ("op", r.choice([172, 173]))]
        un = [interp.push_of(r.choice([sig_like, pub, b"", b"\x01"])) for _ in range(r.randrange(0, 3))]
        if r.random() < 0.2:
            un = [("op", 81), ("op", 99), ("op", 171), ("op", 104)] + un
        if r.random() < 0.35:
            # the unlocking part leaves items on the alt stack and the FIRST locking element fails (or not)
            un = un + [interp.push_of(b"\x07"), ("op", 107), interp.push_of(b"\x08\x09"), ("op", 107)]
            lk = [r.choice([("op", 105), ("op", 147), ("op", 108), ("op", 106), ("op", 172), ("op", 136), ("op", 0), ("op", 118)])] + lk
        tx["ins"][idx]["script"] = wire.detok(un)
        ext = [None] * ni
        ext[idx] = {"locking": wire.detok(lk).hex(), "satoshis": gen.u64(r)}
        yield {"k": "tx", "tx": wire.tx_encode(tx).hex(), "idx": idx, "ext": ext, "tag": "tx_bound_conditional", "nbits": len(un) + len(lk)}


def request_of(case):
    k = case["k"]
    if k == "script":
        raw = bytes.fromhex(case["hex"])
        try:
            nb = len(wire.tokenize(raw))
        except wire.ScriptTrunc as e:
            nb = len(e.tokens) + 1
        req = {"op": "interp", "script": case["hex"], "max_steps": nb + 1, "mode": "both"}
        if case.get("compact"):
            req["compact"] = True
            req["guard"] = 16 << 30
    elif k == "ctor":
        nb = count_bits(case["bits"])
        req = {"op": "interp", "ctor_bits": {"tx": case["tx"], "txin": case["txin"], "bits": case["bits"]}, "max_steps": nb + 1, "mode": "both"}
    elif k == "bits":
        nb = count_bits(case["bits"])
        req = {"op": "interp", "bits": case["bits"], "max_steps": nb + 1, "mode": "both"}
    else:
        nb = case["nbits"]
        req = {"op": "interp", "tx": case["tx"], "idx": case["idx"], "ext": case["ext"], "max_steps": nb + 1, "mode": "both"}
    # a finished interpreter asked to continue, and (for small programs) k steps + serde/clone of the interpreter object + run()
    req["after_finish"] = True
    req["collect"] = True
    if nb <= 64 and not case.get("compact"):
        hk = zlib.crc32(repr(sorted(case.items())).encode()) if True else 0
        req["mixed"] = {"k": hk % (nb + 1), "via": ("json", "clone", "json", "none")[(hk >> 8) % 4]}
    return req, nb


def judge_huge_branch(ctx, case, build):
    ctx.hit("program")
    ctx.hit("huge_branch")
    ctx.nontrivial()
    raw = bytes([0x52, case["pred"], case["opener"]]) + b"\x61" * case["n"] + b"\x68"
    r = ctx.call({"op": "interp", "script": raw.hex(), "max_steps": 4, "mode": "step", "compact": True, "guard": 16 << 30}, build=build, watchdog=900)
    ctx.ev()
    if "ok" not in r or "step" not in r["ok"]:
        ctx.note("huge_branch request: no reply (%s)" % [q for q in r if q != "ok"][:1])
        return
    s = r["ok"]["step"]
    if s["end"] == "panic":
        ctx.viol("stepping panics at conditional with a very large taken branch: %s" % C09.norm(s["detail"]["msg"]), {"n": case["n"]})
    elif s["end"] == "err":
        if s["post"] != s["last_ok"]:
            ctx.viol("after an error the stacks differ from the last returned state (conditional with a very large taken branch)", {"n": case["n"], "post": str(s["post"])[:200], "last_ok": str(s["last_ok"])[:200]})
        ctx.viol("a conditional whose taken branch is very large fails although every element of it is a no-op", {"n": case["n"], "detail": str(s["detail"])[:200]})
    elif s["end"] == "bound":
        ctx.hit("huge_branch_entered")
        # OP_2 <pred> IF NOP NOP ...: after the first five steps the main stack holds the single element 02
        if s["n_ok"] < 5:
            ctx.viol("stepping into a conditional with a very large taken branch returns fewer states than elements executed", {"n": case["n"], "n_ok": s["n_ok"]})


def judge(ctx, case, build=None):
    if case["k"] == "huge_branch":
        return judge_huge_branch(ctx, case, build or ctx.build)
    req, nb = request_of(case)
    build = build or ctx.build
    r = ctx.call(req, build=build, watchdog=900 if case.get("compact") else None)
    assess(ctx, case, nb, r, build)


def assess(ctx, case, nb, r, build):
    k = case["k"]
    ctx.hit("program")
    ctx.hit(case["tag"])
    if nb:
        ctx.nontrivial()
    ctx.ev()
    tag = "" if build in (None, "chk") else " [%s build]" % build
    if "drv_err" in r:
        if k == "script" and "script parse" in r["drv_err"]:
            ctx.hit("unparseable_script")
            # the parser rejected the bytes: not a script the library can parse
            if ctx.inconclusive and "driver error" in ctx.inconclusive[-1]:
                ctx.inconclusive.pop()
                ctx.outcomes["drv_err"] -= 1
            return
        return
    if "alloc_guard" in r:
        ctx.note("allocation guard tripped while executing (memory is not part of C16)")
        return
    if "miri_ub" in r:
        ctx.viol("Miri reports an error while executing a script: %s" % C09.norm(r["miri_ub"]), {"stderr": r.get("stderr", "")[-1500:]})
        return
    if "death" in r:
        d = r["death"]
        if d.get("code") == 99 or "AddressSanitizer" in d.get("stderr", ""):
            first = [l for l in d.get("stderr", "").splitlines() if "ERROR: AddressSanitizer" in l][:1]
            ctx.viol("AddressSanitizer report while executing a script: %s" % (C09.norm(first[0].split("AddressSanitizer:")[-1].split(" on ")[0]) if first else "unknown"), {"case": "see replay", "stderr": d.get("stderr", "")[:1500]})
        else:
            ctx.viol("executing the script kills the process (%s)%s" % (d.get("signal") or d.get("code"), tag), {"death": {q: d[q] for q in d if q != "stderr"}})
        return
    if "err" in r:
        # Interpreter::from_transaction refused (e.g. unparseable concatenation): a proper error
        ctx.hit("make_err")
        return
    if "ok" not in r:
        if "timeout" in r:
            # the supervisor's wall-clock watchdog fired (heavy program, loaded machine, interpreter under Miri): never a verdict
            ctx.inconclusive.append("watchdog fired on an interpreter request%s" % tag) if build in (None, "chk") else ctx.note("watchdog fired on an interpreter request%s (no verdict)" % tag)
            return
        ctx.viol("interpreter request failed: %s%s" % ([q for q in ("panic",) if q in r][:1], tag), {"resp": str(r)[:300]})
        return
    o = r["ok"]
    if "make_panic" in o:
        ctx.viol("constructing the interpreter panics: %s @ %s%s" % (C09.norm(o["make_panic"]["msg"]), C09.short_file(o["make_panic"]["file"]), tag), {})
        return
    s, b = o["step"], o["run"]

    def at_name(at):
        if not isinstance(at, dict):
            return "end"
        if "op" in at:
            return wire.OPNAMES.get(at["op"], str(at["op"]))
        if "if" in at:
            return "conditional(%s)" % wire.OPNAMES.get(at["if"], at["if"])
        return "push" if ("push" in at or "pd" in at) else "coinbase" if "cb" in at else "?"

    if s["end"] == "panic":
        ctx.viol("stepping panics at %s: %s @ %s%s" % (at_name(s["at"]), C09.norm(s["detail"]["msg"]), C09.short_file(s["detail"]["file"]), tag), {"n_ok": s["n_ok"]})
    elif s["end"] == "bound":
        ctx.viol("stepping does not finish within (flattened bit count + 1) steps%s" % tag, {"bits": nb})
        return
    if b["end"] == "panic":
        if s["end"] != "panic":
            ctx.viol("run() panics where stepping does not: %s @ %s%s" % (C09.norm(b["detail"]["msg"]), C09.short_file(b["detail"]["file"]), tag), {})
        return
    if s["end"] == "panic" or b["end"] == "skipped":
        return
    ctx.hit("lib_ok" if s["end"] == "none" else "lib_err")
    # step vs run
    ctx.ev()
    ctx.hit("step_vs_run")
    a_out = "ok" if s["end"] == "none" else "err"
    ha = o.get("hint_after")
    if isinstance(ha, dict) and "panic" in ha:
        ctx.viol("Iterator::size_hint on the interpreter panics after the run has ended: %s @ %s%s" % (C09.norm(ha["panic"]["msg"]), C09.short_file(ha["panic"]["file"]), tag), {})
    co = o.get("collect")
    if co is not None:
        ctx.ev()
        ctx.hit("consumed_through_collect")
        if "panic" in co:
            ctx.viol("consuming the interpreter through an iterator adaptor (take + collect) panics: %s @ %s%s" % (C09.norm(co["panic"]["msg"]), C09.short_file(co["panic"]["file"]), tag), {})
        elif co["n_ok"] != s["n_ok"]:
            ctx.viol("consuming the interpreter through an iterator adaptor yields a different number of states than a next() loop%s" % tag, {"collect": co["n_ok"], "loop": s["n_ok"]})
    ae = o.get("after_error")
    if ae is not None:
        ctx.ev()
        ctx.hit("continued_after_error")
        if ae["run_again"] != "err" or ae["next_again"] != "err":
            ctx.viol("run() / next() on an interpreter that stopped with an error no longer fails%s" % tag, {"after": str(ae)[:300]})
        elif ae["post"] != b["post"]:
            ctx.viol("asking an interpreter that stopped with an error to continue changes its stacks%s" % tag, {"after": str(ae["post"])[:200], "before": str(b["post"])[:200]})
    af = o.get("after_finish")
    if af is not None:
        ctx.ev()
        ctx.hit("continued_after_finish")
        if af["run_again"] != "ok" or af["next_again"] != "none" or af["post"] != b["post"]:
            ctx.viol("run() / next() on an already finished interpreter changes its state or fails%s" % tag, {"after": str(af)[:400], "final": str(b["post"])[:200]})
    mx = o.get("mixed")
    if mx is not None and mx["stopped"] is None:
        ctx.ev()
        via = (case.get("_via") or "")
        if mx["via_err"] is not None:
            if "panic" in mx["via_err"]:
                ctx.viol("serialising / restoring a mid-run interpreter panics%s" % tag, {"resp": str(mx["via_err"])[:300]})
            else:
                ctx.note("mid-run interpreter does not survive its own serde JSON round trip (informational)")
        elif not mx.get("bits_preserved", True):
            ctx.note("serde JSON round trip of the interpreter changes its program (coinbase elements become pushes): nothing to compare")
        elif mx["end"] == "panic":
            ctx.viol("run() after k single steps panics: %s @ %s%s" % (C09.norm(mx["detail"]["msg"]), C09.short_file(mx["detail"]["file"]), tag), {"stepped": mx["stepped"]})
        else:
            ctx.hit("steps_then_transfer_then_run")
            if mx["end"] != b["end"] or mx["post"] != b["post"]:
                ctx.viol("k single steps, then a copy of the interpreter (serde JSON or clone), then run(): outcome or final stacks differ from run() alone%s" % tag, {"mixed": str(mx)[:400], "run": str(b)[:300]})
    if a_out != b["end"]:
        ctx.viol("single-stepping and run() disagree on the outcome (step: %s, run: %s)%s" % (a_out, b["end"], tag), {"step": s["detail"], "run": b["detail"]})
    elif "panic" in s["post"] or "panic" in b["post"]:
        ctx.viol("state() panics after execution%s" % tag, {})
    elif s["post"]["stack"] != b["post"]["stack"] or s["post"]["alt"] != b["post"]["alt"]:
        ctx.viol("single-stepping and run() end with different stacks (outcome %s)%s" % (a_out, tag), {"step": str(s["post"])[:300], "run": str(b["post"])[:300]})
    # after an error the stacks are those of the last successfully returned state
    if s["end"] == "err":
        ctx.ev()
        ctx.hit("post_error_state_checked")
        if s["post"]["stack"] != s["last_ok"]["stack"] or s["post"]["alt"] != s["last_ok"]["alt"]:
            ctx.viol("after an error at %s the stacks differ from the last successfully returned state%s" % (at_name(s["at"]), tag), {"last_ok": str(s["last_ok"])[:300], "post": str(s["post"])[:300], "err": s["detail"]})
    elif s["end"] == "none":
        ctx.ev()
        if s["post"]["stack"] != s["last_ok"]["stack"] or s["post"]["alt"] != s["last_ok"]["alt"]:
            ctx.viol("state() after completion differs from the last returned state%s" % tag, {})


def extra_stages(tier, seed, res):
    """thorough only: release build (overflow wraps instead of panicking), AddressSanitizer build, and a small corpus under Miri"""
    if tier != "thorough":
        return []
    from .. import core, miri

    out = []
    out += core.run_build_stage(__name__, "quick", seed + 101, "rel", list(range(0, 64)), 64, 600)
    try:
        out += core.run_build_stage(__name__, "quick", seed + 202, "asan", list(range(0, 64, 2)), 64, 900)
    except Exception as e:
        c = core.Ctx(ID, tier, seed, 0, 1)
        c.note("asan stage skipped: %s" % str(e)[:200])
        out.append(c.result())
    ctx = core.Ctx(ID, "quick", seed + 303, 1, 64)
    picked = []
    per = {}
    try:
        for case in cases(ctx):
            if case["tag"] in ("tx_bound", "tx_bound_conditional", "huge_stack", "huge_predicate", "huge_branch", "long", "ctor_with_index") or case.get("compact"):
                continue  # EC operations / megabyte-sized elements cost seconds to minutes each under Miri
            if len(str(case)) > 1500:
                continue
            lim = 600 if case["tag"] == "c14exh" else 200
            if per.get(case["tag"], 0) >= lim:
                continue
            per[case["tag"]] = per.get(case["tag"], 0) + 1
            picked.append(case)
    finally:
        ctx.close()
    reqs = [request_of(c) for c in picked]
    # no signature opcodes with real keys here; hashing opcodes are fine
    resps, diag = miri.run([q for q, _ in reqs], nproc=16, timeout_s=2400)
    mctx = core.Ctx(ID, tier, seed, 0, 1)
    if resps is None:
        mctx.note("miri stage skipped: %s" % str(diag)[:300])
    else:
        n_ans = 0
        for case, (q, nb), r in zip(picked, reqs, resps):
            if r is None:
                continue
            n_ans += 1
            mctx.begin(case)
            assess(mctx, case, nb, r, "miri")
            mctx.end()
        mctx.note("miri requests answered", n_ans)
        mctx.exhaustive.append("miri stage: %d interpreter programs stepped and run under Miri (%s)" % (n_ans, diag))
    mr = mctx.result()
    mr["hits"] = {"miri:%s" % k: v for k, v in mr["hits"].items()}
    mr["samples"] = []
    out.append(mr)
    seeds = [bytes.fromhex(x) for x in ("515293", "6351675268", "0102030405767c7e", "5152536b6c7b", "02ffff0182")]
    out += C09.fuzz_stage(__name__, tier, seed, "interp", 150, lambda data, cls: [{"k": "script", "hex": data.hex(), "tag": cls}], seeds=seeds, max_len=512)
    return out
