"""C15 — interpreter CHECKSIG / CHECKMULTISIG accept exactly valid signatures on the right data."""
import random

from .. import gen
from ..ref import base58, ec, hashes, interp, sighash, wire

ID = "C15"
RULE = (
    "cases: spending scenarios for P2PK, P2PKH and m-of-n multisig (1<=m<=n<=3), plain and *VERIFY forms, OP_CODESEPARATOR inserted at every position class of the flat locking script, "
    "1..4 inputs/outputs, every input index, values incl. 0 and 2^64-1, all 12 standard flag bytes, compressed and uncompressed keys; signatures made by the reference signer and by the "
    "library's own Transaction::sign / get_unlocking_script; then EVERY single-field mutation (version, locktime, each outpoint, each sequence, each output value/script, declared value, key, "
    "r, s, flag byte, multisig signature order / repetition / key replacement, signature over the byte-reversed digest). For each variant the expected verdict is computed by the reference "
    "(subscript after the last executed separator, reference preimage per flag byte, reference ECDSA, in-order multisig matching) and compared two-sidedly with the interpreter's verdict. "
    "non-trivial = every distinct scenario variant"
)
ASSUMPTIONS = [
    "accept := run() returns Ok and the final main stack is non-empty with a true top element; reject := anything else (error or false)",
    "reference preimages from vf/ref/sighash.py, ECDSA from vf/ref/ec.py; strict DER for signatures",
    "locking scripts with conditionals, m = 0 / n = 0 multisig and non-standard flag bytes are outside the quantifier",
    "high-S signatures: no claim (whether a high-S signature counts as valid is a policy choice; the ECDSA backend rejects them)",
]
NSHARDS = {"quick": 32, "thorough": 64}
BUDGET_S = {"quick": 240, "thorough": 2400}
MIN_HITS = {
    'quick': {"variant": 7409, "expect_accept": 2439, "expect_reject": 4905, "mutation_still_valid": 2247, "family_p2pk": 47, "family_p2pkh": 47, "family_multisig": 97, "lib_signed": 79, "with_separator": 141, "reversed_digest": 192, "legacy_flag": 96, "forkid_flag": 96},
    'thorough': {"variant": 354592, "expect_accept": 106955, "expect_reject": 244564, "mutation_still_valid": 97355, "family_multisig": 4795, "lib_signed": 4232, "with_separator": 6859, "reversed_digest": 9600},
}
FLAGS = [0x01, 0x02, 0x03, 0x81, 0x82, 0x83, 0x41, 0x42, 0x43, 0xC1, 0xC2, 0xC3]


def selftest():
    ec.selftest()
    sighash.selftest()
    interp.selftest()


def cases(ctx):
    r = ctx.rnd
    t = ctx.tier == "thorough"
    for i in range(40 if t else 2):
        ni = r.choice([2, 3])
        no = r.choice([0, 1, 1])
        idx = r.randrange(no, ni)
        tx = gen.gen_tx(r, ni, no, coinbase=False, script_kw={"n_tokens": 0})
        yield {"k": "scn", "single_oob": True, "tx": wire.tx_encode(tx).hex(), "idx": idx, "flag": [0x03, 0x83, 0x43, 0xC3][(i + ctx.shard) % 4], "value": r.getrandbits(40), "keys": ["%064x" % r.randrange(1, ec.N)]}
    for i in range(250 if t else 12):
        fam = ["p2pk", "p2pkh", "multisig", "multisig"][i % 4] if i < 8 else r.choice(["p2pk", "p2pkh", "multisig", "multisig"])
        ni = r.choice([1, 2, 3, 4])
        no = r.choice([1, 2, 3, 4])
        idx = r.randrange(ni)
        flag = FLAGS[(i + ctx.shard) % 12] if i < 24 else r.choice(FLAGS)
        if (flag & 0x1F) == 3 and idx >= no:
            no = idx + 1
        tx = gen.gen_tx(r, ni, no, coinbase=False, script_kw={"n_tokens": r.choice([0, 1, 2]), "push_lens": [1, 2, 20]})
        for i_ in tx["ins"]:
            i_["seq"] = r.choice([0xFFFFFFFF, 0xFFFFFFFE, 0x01020304, 0, r.getrandbits(32)])
        tx["ins"][idx]["script"] = b""
        n = r.choice([1, 2, 3])
        m = r.randrange(1, n + 1)
        dup = fam == "multisig" and i % 4 == 1
        if dup:
            # the SAME public key listed twice, both copies signing: two byte-identical signatures (deterministic nonces)
            n, m = r.choice([2, 3]), 2
        keys_ = ["%064x" % (r.choice([1, 2, ec.N - 1]) if r.random() < 0.1 else r.randrange(1, ec.N)) for _ in range(n if fam == "multisig" else 1)]
        comp_ = [r.random() < 0.6 for _ in range(3)]
        if dup:
            keys_[1] = keys_[0]
            comp_[1] = comp_[0]
        yield {
            "k": "scn",
            "family": fam,
            "verify_form": r.random() < 0.3,
            "tx": wire.tx_encode(tx).hex(),
            "idx": idx,
            "value": r.choice([0, 1, 2**64 - 1, 0x0102030405060708, r.getrandbits(64)]),
            "flag": flag,
            "keys": keys_,
            "compressed": comp_,
            "dup_keys": dup,
            "m": m,
            "sep": r.choice([None, None, "lead", "mid", "before_op", "two", "trail"]),
            # a conditional block in front of the spend template: executed / skipped branches, with code separators inside or after them
            "cond": (CONDS[(i + ctx.shard) % len(CONDS)] if i % 3 == 2 else None),
            # trailing OP_NOPs that make the subscript cross the 253-byte length-prefix boundary (the interpreter is quadratic in the
            # element count, so the 65536 boundary is left to C03/C10)
            "pad": (300 if i % 7 == 3 else 1200 if i % 12 == 5 else 0),
            "signer": r.choice(["ref", "ref", "lib"]),
            "seed": r.getrandbits(30),
        }


S_ = ("op", 171)
NOP = ("op", 97)
# name -> (prefix tokens, flat index of the last separator EXECUTED inside the prefix or None)
COND_PREFIX = {
    "if_taken_then_sep": ([("op", 81), ("op", 99), NOP, ("op", 104), S_], 4),
    "if_taken_no_sep": ([("op", 81), ("op", 99), NOP, ("op", 104)], None),
    "if_skipped_then_sep": ([("op", 0), ("op", 99), NOP, ("op", 104), S_], 4),
    "notif_taken_no_sep": ([("op", 0), ("op", 100), NOP, NOP, ("op", 104)], None),
    "sep_inside_taken": ([("op", 81), ("op", 99), S_, NOP, ("op", 104)], 2),
    "sep_inside_skipped": ([("op", 0), ("op", 99), S_, ("op", 104)], None),
    "sep_in_else_taken": ([("op", 0), ("op", 99), NOP, ("op", 103), S_, ("op", 104)], 4),
    "sep_in_else_skipped": ([("op", 81), ("op", 99), NOP, ("op", 103), S_, ("op", 104)], None),
    "sep_then_if_taken": ([S_, ("op", 81), ("op", 99), NOP, ("op", 104)], 0),
    "nested_taken_then_sep": ([("op", 81), ("op", 81), ("op", 99), ("op", 99), NOP, ("op", 104), ("op", 104), S_], 7),
}
CONDS = sorted(COND_PREFIX)


def tree_bits(toks):
    """flat tokens -> the library's element tree: a conditional block is ONE element {if, pass, fail}"""

    def walk(i, stop):
        out = []
        while i < len(toks):
            t = toks[i]
            if t[0] == "op" and t[1] in stop:
                return out, i
            if t[0] == "op" and t[1] in (99, 100):
                pas, j = walk(i + 1, (103, 104))
                fail = None
                if toks[j][1] == 103:
                    fail, j = walk(j + 1, (104,))
                out.append(("if", t[1], pas, fail))
                i = j + 1
            else:
                out.append(t)
                i += 1
        return out, i

    return walk(0, ())[0]


def flat_of(bits):
    out = []
    for b in bits:
        if b[0] == "if":
            out.append(("op", b[1]))
            out += flat_of(b[2])
            if b[3] is not None:
                out.append(("op", 103))
                out += flat_of(b[3])
            out.append(("op", 104))
        else:
            out.append(b)
    return out


def defect_model_subscript(n_unlock, locking):
    """KNOWN FINDING model: the library records the code separator position as an index into the EXECUTING element list (taken
    branches are spliced into it) but cuts the subscript from the locking script's original top-level element list at that index.
    Returns the subscript bytes the library uses, or None where it now reports an error (index past the end)."""
    top = tree_bits(locking)
    L = [("push", b"")] * n_unlock + list(top)
    i = 0
    off = 0
    st = []  # only the constants in front of conditionals matter
    while i < len(L):
        b = L[i]
        if b[0] == "if":
            pred = st.pop() if st else False
            take_first = (not pred) if b[1] == 100 else pred
            br = b[2] if take_first else (b[3] or [])
            L[i + 1 : i + 1] = br
        elif b[0] == "op":
            if b[1] == 171:
                off = i + 1
            elif b[1] in (172, 173, 174, 175):
                break
            elif b[1] == 81:
                st.append(True)
            elif b[1] == 0:
                st.append(False)
        i += 1
    so = max(0, off - n_unlock)
    if so > len(top):
        return None
    return wire.detok(flat_of(top[so:]))


def judge_single_oob(ctx, case):
    """SINGLE flag at an input index without a matching output: the library refuses to produce a preimage (C03/C10), so no spend
    carrying such a signature may be accepted. The claim is made only while the library refuses (asked first); a library that
    implements the specification's own treatment instead is not judged here."""
    ctx.hit("single_without_matching_output")
    x = int(case["keys"][0], 16)
    pub = ec.ser(ec.mul_g(x), True)
    lk = [interp.push_of(pub), ("op", 172)]
    r = ctx.call({"op": "tx_sign", "tx": case["tx"], "flag": case["flag"], "idx": case["idx"], "script": wire.detok(lk).hex(), "value": case["value"], "key": case["keys"][0], "compressed": True})
    ctx.ev()
    sigs = []
    if "ok" in r:
        # the library does produce a signature for this flag / index: it implements the specification's own treatment (FORKID: hashOutputs
        # of zeros; legacy: the historic constant) instead of refusing, which the sighash properties permit - nothing to claim here
        ctx.note("SINGLE without matching output is signed rather than refused: no claim on the spend")
        return
    # the historic "SIGHASH_SINGLE bug" digest 01 00..00 and its byte reversal
    for name, d in (("signature over the historic digest 0100..00", b"\x01" + b"\x00" * 31), ("signature over the digest 00..0001", b"\x00" * 31 + b"\x01")):
        e = ec.sign_det(x, d)
        sigs.append((name, ec.der_encode(e[0], e[1]) + bytes([case["flag"]])))
    tx = wire.tx_decode(bytes.fromhex(case["tx"]))
    for name, sg in sigs:
        t2 = {"version": tx["version"], "locktime": tx["locktime"], "ins": [dict(i) for i in tx["ins"]], "outs": tx["outs"]}
        t2["ins"][case["idx"]]["script"] = wire.detok([interp.push_of(sg)])
        ext = [None] * len(t2["ins"])
        ext[case["idx"]] = {"locking": wire.detok(lk).hex(), "satoshis": case["value"]}
        rr = ctx.call({"op": "interp", "tx": wire.tx_encode(t2).hex(), "idx": case["idx"], "ext": ext, "max_steps": 6, "mode": "run"})
        ctx.ev()
        ctx.hit("variant")
        run = rr.get("ok", {}).get("run") if isinstance(rr.get("ok"), dict) else None
        if run and run["end"] == "ok" and run["post"]["stack"] and interp.truth(bytes.fromhex(run["post"]["stack"][-1])):
            ctx.viol("spend accepted although its signature's SINGLE flag has no matching output (%s, %s flag)" % (name, "FORKID" if case["flag"] & 0x40 else "legacy"), {"flag": case["flag"]})


class Scenario:
    """reference-side model of one spend"""

    def __init__(self, case):
        self.case = case
        self.tx = wire.tx_decode(bytes.fromhex(case["tx"]))
        self.idx = case["idx"]
        self.value = case["value"]
        self.keys = [int(k, 16) for k in case["keys"]]
        self.pubs = [ec.ser(ec.mul_g(x), c) for x, c in zip(self.keys, case["compressed"])]
        fam = case["family"]
        if fam == "p2pk":
            lk = [interp.push_of(self.pubs[0]), ("op", 173 if case["verify_form"] else 172)]
        elif fam == "p2pkh":
            lk = [("op", 118), ("op", 169), interp.push_of(hashes.hash160(self.pubs[0])), ("op", 136), ("op", 173 if case["verify_form"] else 172)]
        else:
            lk = [("op", 80 + case["m"])] + [interp.push_of(p) for p in self.pubs] + [("op", 80 + len(self.pubs)), ("op", 175 if case["verify_form"] else 174)]
        if case["verify_form"]:
            lk.append(("op", 81))
        sep = case["sep"]
        S = ("op", 171)
        if sep == "lead":
            lk = [S] + lk
        elif sep == "mid":
            lk = lk[:1] + [S] + lk[1:]
        elif sep == "before_op":
            j = max(i for i, t in enumerate(lk) if t[0] == "op" and t[1] in (172, 173, 174, 175))
            lk = lk[:j] + [S] + lk[j:]
        elif sep == "two":
            lk = [S] + lk[:2] + [S] + lk[2:]
        elif sep == "trail":
            lk = lk + [S]
        # position of the last separator executed before the signature opcode, as a flat token index
        j = max(i for i, t in enumerate(lk) if t[0] == "op" and t[1] in (172, 173, 174, 175))
        last = -1
        for i, t in enumerate(lk[:j]):
            if t == ("op", 171):
                last = i
        if case.get("pad"):
            lk = lk + [NOP] * case["pad"]
        self.cond = case.get("cond")
        if self.cond:
            pre, pre_last = COND_PREFIX[self.cond]
            if last >= 0:
                last += len(pre)
            elif pre_last is not None:
                last = pre_last
            lk = list(pre) + lk
        self.sub_from = last + 1
        self.locking = lk
        self.override_sub = None

    def subscript(self, lk=None):
        """locking script bytes after the last separator executed before the signature opcode (variants keep the token positions)"""
        if self.override_sub is not None:
            return self.override_sub
        lk = self.locking if lk is None else lk
        return wire.detok(lk[self.sub_from :])

    def digest(self, tx, flag, value, lk=None):
        return wire.sha256d(sighash.preimage(tx, self.idx, self.subscript(lk), value, flag))


VCACHE = {}


def sig_valid(sc, tx, value, sig, pub, lk=None):
    """reference verdict for one (signature bytes, public key bytes) pair against the transaction as it stands"""
    if len(sig) < 1:
        return False
    flag = sig[-1]
    if flag not in FLAGS:
        return False
    rs = ec.der_parse_strict(sig[:-1])
    Q = ec.parse_pub(pub)
    if rs is None or Q is None:
        return False
    try:
        d = sc.digest(tx, flag, value, lk)
    except sighash.NoSingleOutput:
        return False
    key = (Q, d, rs)
    if key not in VCACHE:
        VCACHE[key] = ec.verify(Q, int.from_bytes(d, "big"), rs[0], rs[1])
    return VCACHE[key]


def expected_accept(sc, tx, value, unlocking, locking):
    """evaluate the spend with the reference: generic interpreter for everything except the signature opcodes, which are decided by sig_valid"""
    toks = unlocking + locking
    st = []
    alt = []
    ex = []  # execution flags of the open conditionals
    for t in toks:
        if t[0] == "op" and t[1] in (99, 100, 103, 104):
            c = t[1]
            if c in (99, 100):
                if all(ex):
                    if not st:
                        return False
                    v = interp.truth(st.pop())
                    ex.append(v if c == 99 else not v)
                else:
                    ex.append(False)
            elif c == 103:
                if not ex:
                    return False
                if all(ex[:-1]):
                    ex[-1] = not ex[-1]
            else:
                if not ex:
                    return False
                ex.pop()
            continue
        if not all(ex):
            continue
        if t[0] != "op":
            st.append(t[-1])
            continue
        c = t[1]
        if c == 171:
            continue
        if c in (172, 173):
            if len(st) < 2:
                return False
            pub = st.pop()
            sig = st.pop()
            ok = sig_valid(sc, tx, value, sig, pub, locking)
            if c == 172:
                st.append(interp.T if ok else interp.F)
            elif not ok:
                return False
        elif c in (174, 175):
            if len(st) < 1:
                return False
            n = interp.num(st.pop())
            if n < 1 or n > len(st):
                return False
            pubs = st[len(st) - n :]
            del st[len(st) - n :]
            if not st:
                return False
            m = interp.num(st.pop())
            if m < 1 or m > n or m > len(st):
                return False
            sigs = st[len(st) - m :]
            del st[len(st) - m :]
            if not st:
                return False
            st.pop()  # the extra item
            isig = ikey = 0
            ok = True
            while ok and isig < m:
                if ikey >= n:
                    ok = False
                    break
                if sig_valid(sc, tx, value, sigs[isig], pubs[ikey], locking):
                    isig += 1
                ikey += 1
                if m - isig > n - ikey:
                    ok = False
            if c == 174:
                st.append(interp.T if ok else interp.F)
            elif not ok:
                return False
        else:
            try:
                interp.exec_op(c, st, alt)
            except interp.ScriptFail:
                return False
    return bool(st) and interp.truth(st[-1])


KNOWN_REJECT = "subscript is cut from the un-executed element list: valid spend rejected when a conditional ran before, or encloses, the last executed code separator"
KNOWN_ACCEPT = "subscript is cut from the un-executed element list: spend signed over the library's own wrong subscript accepted when a conditional ran before, or encloses, the last executed code separator"


def defect_expect(sc, tx, val, un, lk):
    """verdict the library reaches if (and only if) it behaves as the recorded finding says"""
    sub = defect_model_subscript(len(un), lk)
    if sub is None:
        return False
    sc.override_sub = sub
    try:
        return expected_accept(sc, tx, val, un, lk)
    finally:
        sc.override_sub = None


def judge(ctx, case):
    if case.get("single_oob"):
        ctx.nontrivial()
        return judge_single_oob(ctx, case)
    rnd = random.Random(case["seed"])
    sc = Scenario(case)
    if case.get("pad"):
        ctx.hit("subscript>=253")
    if case.get("dup_keys"):
        ctx.hit("multisig_same_key_twice")
    if sc.cond:
        ctx.hit("with_conditional")
        ctx.hit("cond_" + sc.cond)
    tx0, idx, flag, value = sc.tx, sc.idx, case["flag"], case["value"]
    fam = case["family"]
    ctx.hit("family_" + fam)
    if case["sep"]:
        ctx.hit("with_separator")
    ctx.hit("forkid_flag" if flag & 0x40 else "legacy_flag")
    # ---- signatures over the untouched transaction
    try:
        d0 = sc.digest(tx0, flag, value)
    except sighash.NoSingleOutput:
        return
    z0 = int.from_bytes(d0, "big")
    signers = list(range(case["m"])) if fam == "multisig" else [0]
    if fam == "multisig" and len(sc.keys) > case["m"] and rnd.random() < 0.5 and not case.get("dup_keys"):
        signers = sorted(rnd.sample(range(len(sc.keys)), case["m"]))
    sigs = []
    for si in signers:
        if case["signer"] == "lib":
            ctx.hit("lib_signed")
            r = ctx.call({"op": "tx_sign", "tx": case["tx"], "flag": flag, "idx": idx, "script": sc.subscript().hex(), "value": value, "key": case["keys"][si], "compressed": case["compressed"][si]})
            if "ok" not in r:
                ctx.ev()
                ctx.viol("library could not sign the scenario input", {"resp": str(r)[:300]})
                return
            sigs.append(bytes.fromhex(r["ok"]["sig"]))
        else:
            e = ec.sign_det(sc.keys[si], d0)
            sigs.append(ec.der_encode(e[0], e[1]) + bytes([flag]))

    def unlocking_of(sig_list, pub=None):
        if fam == "p2pk":
            return [interp.push_of(sig_list[0])]
        if fam == "p2pkh":
            return [interp.push_of(sig_list[0]), interp.push_of(pub if pub is not None else sc.pubs[0])]
        return [("op", 0)] + [interp.push_of(s) for s in sig_list]

    variants = []  # (name, tx, value, unlocking tokens, locking tokens)

    def add(name, tx=None, val=None, un=None, lk=None, resign=False):
        if resign:
            # the locking script itself differs: fresh reference signatures over the subscript of THAT script
            try:
                dz = sc.digest(tx0, flag, value, lk)
            except sighash.NoSingleOutput:
                return
            ns = []
            for si in signers:
                e_ = ec.sign_det(sc.keys[si], dz)
                ns.append(ec.der_encode(e_[0], e_[1]) + bytes([flag]))
            un = unlocking_of(ns)
        variants.append((name, tx if tx is not None else tx0, value if val is None else val, un if un is not None else unlocking_of(sigs), lk if lk is not None else sc.locking))

    add("unmodified")
    if sc.cond:
        # probe for the recorded finding: signatures over the subscript the library is known to use instead
        wrong = defect_model_subscript(len(unlocking_of(sigs)), sc.locking)
        if wrong is not None and wrong != sc.subscript():
            sc.override_sub = wrong
            try:
                dw = sc.digest(tx0, flag, value)
            except sighash.NoSingleOutput:
                dw = None
            finally:
                sc.override_sub = None
            if dw is not None and dw != d0:
                ws = []
                for si in signers:
                    e = ec.sign_det(sc.keys[si], dw)
                    ws.append(ec.der_encode(e[0], e[1]) + bytes([flag]))
                add("signed over the subscript cut from the un-executed element list", un=unlocking_of(ws))
    if fam == "multisig" and len(signers) >= 2:
        # every signature valid for its OWN flag byte (the flag selects the preimage per signature)
        mixed = []
        for j, si in enumerate(signers):
            f2 = FLAGS[(FLAGS.index(flag) + 1 + 5 * j) % 12] if j else flag
            try:
                dj = sc.digest(tx0, f2, value)
            except sighash.NoSingleOutput:
                mixed = None
                break
            ej = ec.sign_det(sc.keys[si], dj)
            mixed.append(ec.der_encode(ej[0], ej[1]) + bytes([f2]))
        if mixed:
            add("multisig signatures with different flag bytes", un=unlocking_of(mixed))
            # and the second signature's flag byte swapped without re-signing
            add("multisig second signature flag byte swapped", un=unlocking_of([sigs[0], sigs[1][:-1] + bytes([FLAGS[(FLAGS.index(flag) + 3) % 12]])] + sigs[2:]))

    def tx_with(f):
        t = {"version": tx0["version"], "locktime": tx0["locktime"], "ins": [dict(i) for i in tx0["ins"]], "outs": [dict(o) for o in tx0["outs"]]}
        f(t)
        return t

    add("version changed", tx=tx_with(lambda t: t.update(version=(t["version"] + 1) & 0xFFFFFFFF)))
    add("locktime changed", tx=tx_with(lambda t: t.update(locktime=t["locktime"] ^ 0x100)))
    for j in range(len(tx0["ins"])):
        who = "signed input" if j == idx else "other input"
        add("outpoint txid of %s changed" % who, tx=tx_with(lambda t, j=j: t["ins"][j].update(txid_wire=bytes([t["ins"][j]["txid_wire"][0] ^ 1]) + t["ins"][j]["txid_wire"][1:])))
        add("outpoint index of %s changed" % who, tx=tx_with(lambda t, j=j: t["ins"][j].update(vout=t["ins"][j]["vout"] ^ 1)))
        add("sequence of %s changed" % who, tx=tx_with(lambda t, j=j: t["ins"][j].update(seq=t["ins"][j]["seq"] ^ 0x10000)))
        if j != idx:
            add("unlocking script of other input changed", tx=tx_with(lambda t, j=j: t["ins"][j].update(script=t["ins"][j]["script"] + b"\x51")))
    for j in range(len(tx0["outs"])):
        who = "output at the signed index" if j == idx else "other output"
        add("value of %s changed" % who, tx=tx_with(lambda t, j=j: t["outs"][j].update(value=t["outs"][j]["value"] ^ 1)))
        add("script of %s changed" % who, tx=tx_with(lambda t, j=j: t["outs"][j].update(script=t["outs"][j]["script"] + b"\x61")))
    add("output appended", tx=tx_with(lambda t: t["outs"].append({"value": 7, "script": b"\x51"})))
    add("input appended", tx=tx_with(lambda t: t["ins"].append({"txid_wire": b"\x33" * 32, "vout": 0, "script": b"", "seq": 5})))
    # an OP_CODESEPARATOR executed inside the UNLOCKING part does not move the start of the subscript (the subscript is cut from the
    # locking script only); the library does not insist on push-only unlocking scripts
    if not sc.cond:
        base_un = unlocking_of(sigs)
        add("code separator in front of the unlocking script", un=[("op", 171)] + base_un)
        if len(base_un) >= 2:
            add("code separator in the middle of the unlocking script", un=base_un[:1] + [("op", 171)] + base_un[1:])
    # explicit-nonce signatures whose r has a ZERO second / third byte (nonce searched with the reference), strict DER, low S
    if case["seed"] % 4 == 0:
        for shape in ("r second byte zero", "r third byte zero"):
            kk_ = None
            for ctr in range(6000):
                kc = (case["seed"] * 7919 + ctr * 104729 + 12345) % ec.N or 1
                rb = (ec.mul_g(kc)[0] % ec.N).to_bytes(32, "big")
                if rb[0] != 0 and rb[0] < 0x80 and ((shape == "r second byte zero" and rb[1] == 0 and rb[2] < 0x80) or (shape == "r third byte zero" and rb[2] == 0 and rb[1] != 0)):
                    kk_ = kc
                    break
            if kk_ is None:
                continue
            zs = []
            for si in signers:
                e_ = ec.sign_with_k(sc.keys[si], z0, kk_)
                if e_ is None:
                    zs = None
                    break
                zs.append(ec.der_encode(e_[0], e_[1]) + bytes([flag]))
            if zs:
                add("signature whose %s" % shape, un=unlocking_of(zs))
    add("declared value changed", val=value ^ 1)
    # the spent output's value is NOT declared at all: nothing can be verified (a signature over value 0 included)
    if flag & 0x40:
        try:
            d_0 = sc.digest(tx0, flag, 0)
            s_0 = []
            for si in signers:
                e_ = ec.sign_det(sc.keys[si], d_0)
                s_0.append(ec.der_encode(e_[0], e_[1]) + bytes([flag]))
            variants.append(("value of the spent output not declared, signature over value 0", tx0, None, unlocking_of(s_0), sc.locking))
        except sighash.NoSingleOutput:
            pass
    add("declared value changed (high bit)", val=value ^ (1 << 63))
    # signature / key mutations
    s0 = sigs[0]
    rs = ec.der_parse_strict(s0[:-1])
    add("r changed", un=unlocking_of([ec.der_encode((rs[0] % (ec.N - 2)) + 1, rs[1]) + s0[-1:]] + sigs[1:]))
    add("s changed", un=unlocking_of([ec.der_encode(rs[0], (rs[1] % (ec.HALF_N - 1)) + 1) + s0[-1:]] + sigs[1:]))
    add("high-S form of the same signature", un=unlocking_of([ec.der_encode(rs[0], ec.N - rs[1]) + s0[-1:]] + sigs[1:]))
    for f2 in rnd.sample([f for f in FLAGS if f != s0[-1]], 3):
        add("flag byte swapped", un=unlocking_of([s0[:-1] + bytes([f2])] + sigs[1:]))
    add("flag byte dropped", un=unlocking_of([s0[:-1]] + sigs[1:]))
    add("flag byte doubled", un=unlocking_of([s0 + s0[-1:]] + sigs[1:]))
    add("another flag-valued byte inserted before the flag byte", un=unlocking_of([s0[:-1] + bytes([rnd.choice(FLAGS)]) + s0[-1:]] + sigs[1:]))
    add("non-flag byte inserted before the flag byte", un=unlocking_of([s0[:-1] + b"\x04" + s0[-1:]] + sigs[1:]))
    # signature over the byte-reversed digest
    er = ec.sign_with_k(sc.keys[signers[0]], int.from_bytes(d0[::-1], "big") % ec.N, ec.rfc6979(sc.keys[signers[0]], d0[::-1]))
    add("signature over the byte-reversed digest", un=unlocking_of([ec.der_encode(er[0], er[1]) + bytes([flag])] + sigs[1:]))
    other = rnd.randrange(1, ec.N)
    opub = ec.ser(ec.mul_g(other), True)
    if fam == "p2pk":
        add("key replaced by another valid key", lk=[interp.push_of(opub) if t == interp.push_of(sc.pubs[0]) else t for t in sc.locking])
        add("key given in the other compression form", lk=[interp.push_of(ec.ser(ec.mul_g(sc.keys[0]), not case["compressed"][0])) if t == interp.push_of(sc.pubs[0]) else t for t in sc.locking])
    elif fam == "p2pkh":
        add("key replaced by another valid key", un=unlocking_of(sigs, opub))
        add("key replaced and hash replaced (signature by the old key)", un=unlocking_of(sigs, opub), lk=[interp.push_of(hashes.hash160(opub)) if t[0] == "push" and len(t[1]) == 20 else t for t in sc.locking])
    else:
        n = len(sc.pubs)
        if len(sigs) >= 2:
            add("multisig signatures in reverse key order", un=unlocking_of(sigs[::-1]))
            add("multisig signature repeated", un=unlocking_of([sigs[0]] * len(sigs)))
        add("multisig key replaced by another valid key", lk=[interp.push_of(opub) if t == interp.push_of(sc.pubs[signers[0]]) else t for t in sc.locking])
        if n >= 2:
            perm = sc.pubs[1:] + sc.pubs[:1]
            it = iter(perm)
            add("multisig keys rotated", lk=[interp.push_of(next(it)) if (t[0] == "push" and t[1] in sc.pubs) else t for t in sc.locking])
        add("multisig dummy element missing", un=unlocking_of(sigs)[1:])
        # a key slot AFTER the last key that is needed holds bytes that are not a curve point: it is never looked at
        last_needed = max(signers)
        if last_needed < n - 1:
            junk = b"\x02" + b"\xff" * 32
            it2 = iter(range(n))
            lk_j = []
            ki = 0
            for t_ in sc.locking:
                if t_[0] == "push" and t_[1] in sc.pubs:
                    lk_j.append(interp.push_of(junk) if ki > last_needed else t_)
                    ki += 1
                else:
                    lk_j.append(t_)
            add("multisig with a non-point in an unused key slot behind the last needed key (re-signed over that script)", lk=lk_j, resign=True)
        if case["m"] < n:
            # a valid signature by a later key only
            later = [i for i in range(n) if i not in signers]
            e2 = ec.sign_det(sc.keys[later[-1]], d0)
            add("multisig: one signature replaced by a valid signature of an unused key (order preserved?)", un=unlocking_of(sorted([ec.der_encode(e2[0], e2[1]) + bytes([flag])] + sigs[1:], key=lambda s_: 0)))

    for name, tx, val, un, lk in variants:
        ctx.begin_variant = None
        t2 = {"version": tx["version"], "locktime": tx["locktime"], "ins": [dict(i) for i in tx["ins"]], "outs": tx["outs"]}
        t2["ins"][idx]["script"] = wire.detok(un)
        undeclared = val is None
        if undeclared:
            val = 0
        exp = expected_accept(sc, tx, val, un, lk)
        if undeclared:
            exp = False
        if name == "high-S form of the same signature":
            # the statement is read the way the unchanged library behaves: s -> n-s is "a change to a signature" and makes it reject
            # (the library's verifier only accepts the low-S form, as C05 requires of every signature it produces)
            exp = False
        noclaim = "(no claim)" in name
        ext = [None] * len(t2["ins"])
        ext[idx] = {"locking": wire.detok(lk).hex(), "satoshis": val}
        if undeclared:
            del ext[idx]["satoshis"]
            ctx.hit("value_not_declared")
        rq = {"op": "interp", "tx": wire.tx_encode(t2).hex(), "idx": idx, "ext": ext, "max_steps": len(un) + len(lk) + 2, "mode": "run", "after_finish": True}
        if (case["sep"] or sc.cond) and name in ("unmodified", "declared value changed", "signed over the subscript cut from the un-executed element list", "sequence of signed input changed"):
            # the same spend with the interpreter object copied (serde JSON / clone) right after the separator has been executed
            rq["mixed"] = {"k": len(un) + sc.sub_from, "via": "json" if rnd.random() < 0.7 else "clone"}
        r = ctx.call(rq)
        ctx.ev()
        mx = r.get("ok", {}).get("mixed") if isinstance(r.get("ok"), dict) else None
        if mx is not None and mx["stopped"] is None and mx["via_err"] is None and mx.get("bits_preserved", True) and r["ok"]["run"]["end"] != "panic":
            ctx.ev()
            ctx.hit("resumed_after_separator")
            run_ = r["ok"]["run"]
            if (mx["end"], mx["post"]) != (run_["end"], run_["post"]):
                ctx.viol("an interpreter copied (serde JSON / clone) after the code separator was executed reaches a different verdict than the uninterrupted run", {"variant": name, "mixed": str(mx)[:300], "run": str(run_)[:300]})
        ctx.hit("variant")
        ctx.nontrivial()
        ctx.hit("expect_accept" if exp else "expect_reject")
        if exp and name != "unmodified":
            ctx.hit("mutation_still_valid")
        if name.startswith("signature over the byte-reversed"):
            ctx.hit("reversed_digest")
        ae_ = r.get("ok", {}).get("after_error") if isinstance(r.get("ok"), dict) else None
        if ae_ is not None:
            ctx.ev()
            ctx.hit("rejected_spend_asked_again")
            if ae_["run_again"] != "err":
                ctx.viol("a spend rejected with an error is reported as finished when run() is called again on the same interpreter", {"variant": name, "after": str(ae_)[:300]})
        got = None
        if "ok" in r and "run" in r["ok"]:
            run = r["ok"]["run"]
            if run["end"] == "ok":
                stk = run["post"]["stack"]
                got = bool(stk) and interp.truth(bytes.fromhex(stk[-1]))
            elif run["end"] == "err":
                got = False
            elif run["end"] == "panic":
                got = False
                ctx.note("panic while executing a spend (C16)")
        elif "err" in r:
            got = False
        if got is None:
            ctx.viol("spend could not be executed", {"resp": str(r)[:300], "variant": name})
            continue
        fl = "FORKID" if flag & 0x40 else "legacy"
        if noclaim:
            ctx.note("high-S signature %s (low-S is policy, not part of the statement)" % ("accepted" if got else "rejected"))
        elif sc.cond and got != exp and got == defect_expect(sc, tx, val, un, lk):
            # exactly the behaviour of the recorded finding (anything else in these scenarios is reported as usual)
            ctx.hit("matches_recorded_subscript_finding")
            ctx.viol(KNOWN_REJECT if exp else KNOWN_ACCEPT, {"flag": flag, "variant": name, "cond": sc.cond, "locking": wire.detok(lk).hex()})
        elif exp and not got:
            ctx.viol("valid spend rejected: %s %s, %s, signer=%s%s" % (fam, "VERIFY form" if case["verify_form"] else "plain form", name, case["signer"], ", with code separator" if case["sep"] else ""), {"flag": flag, "resp": str(r.get("ok", r))[:400], "variant": name})
        elif got and not exp:
            ctx.viol("invalid spend accepted: %s, %s (%s flag)" % (fam, name, fl), {"flag": flag, "variant": name})
