"""C11 — ECIES (BIE1): decrypt inverts encrypt, standard format, tampering rejected."""
from .. import gen
from ..ref import aes, ec, hashes

ID = "C11"
RULE = (
    "cases: sender/recipient key pairs (edge + random, both compression forms) x message lengths 0..64 (every residue mod 16) and {100,1000,16383,16384,40000} x both public-key "
    "inclusion modes x entry points (ECIES::encrypt, PrivateKey::encrypt_message, PublicKey::encrypt_message, ephemeral); serialised ciphertext compared byte-for-byte with an "
    "independent BIE1 construction; decrypt before and after serialise/parse; EVERY single-bit flip of the serialised ciphertext (all positions for messages <=48 bytes, sampled for longer) "
    "must not decrypt; wrong recipient / wrong sender key must fail. non-trivial = every distinct case"
)
ASSUMPTIONS = ["BIE1 per Electrum: S = compressed(a*B); SHA-512(S) -> iv|kE|kM; AES-128-CBC/PKCS7; HMAC-SHA256 over 'BIE1'||[R]||ct; R always compressed", "flips inside the 4 magic bytes are informational only"]
NSHARDS = {"quick": 32, "thorough": 64}
BUDGET_S = {"quick": 200, "thorough": 1800}
MIN_HITS = {
    'quick': {"enc": 368, "exclude": 90, "ephemeral": 64, "flip": 262989, "flip_pub": 73260, "flip_mac": 93954, "flip_body": 84031, "wrong_key": 368, "len>=16384": 8},
    'thorough': {"enc": 15504, "exclude": 840, "ephemeral": 4608, "flip": 11715673, "wrong_key": 15504, "len>=16384": 48},
}
EDGE = [1, 2, 3, (ec.N - 1) // 2, (ec.N + 1) // 2, ec.N - 2, ec.N - 1]


def selftest():
    ec.selftest()
    aes.selftest()
    hashes.selftest()


def ref_keys(a, B):
    S = ec.ser(ec.mul(a, B), True)
    h = hashes.sha512(S)
    return h[:16], h[16:32], h[32:]


def ref_bie1(a, B, msg, exclude):
    iv, ke, km = ref_keys(a, B)
    ct = aes.cbc_encrypt(ke, iv, msg)
    body = b"BIE1" + (b"" if exclude else ec.ser(ec.mul_g(a), True)) + ct
    return body + hashes.hmac("sha256", km, body), (iv, ke, km)


def ref_decrypt(b, B_or_none, b_priv, has_pub):
    """reference BIE1 decryption; returns plaintext or None"""
    if len(b) < 4 + (33 if has_pub else 0) + 16 + 32:
        return None
    R = ec.parse_pub(b[4:37]) if has_pub else B_or_none
    if R is None:
        return None
    iv, ke, km = ref_keys(b_priv, R)
    if hashes.hmac("sha256", km, b[:-32]) != b[-32:]:
        return None
    return aes.cbc_decrypt(ke, iv, b[4 + (33 if has_pub else 0) : -32])


def cases(ctx):
    r = ctx.rnd
    t = ctx.tier == "thorough"
    S, N = ctx.shard, ctx.nshards
    k = 0
    lens = list(range(0, 65)) + [100, 1000, 16383, 16384, 40000, 65400, 65487, 65488, 65536, 70000, 131072] + ([1 << 20, (1 << 22) + 5] if t else [])
    reps = 20 if t else 1
    for rep in range(reps):
        for L in lens:
            k += 1
            if k % N != S:
                continue
            if L >= 65400 and rep >= 2:
                continue  # the reference (pure-Python AES + HMAC) needs seconds to minutes per call at these sizes
            if L > (1 << 20) and rep >= 1:
                continue
            a = r.choice(EDGE) if r.random() < 0.25 else r.randrange(1, ec.N)
            b = r.choice(EDGE) if r.random() < 0.25 else r.randrange(1, ec.N)
            for exclude in (False, True):
                yield {"k": "enc", "a": "%064x" % a, "b": "%064x" % b, "ca": r.random() < 0.5, "cb": r.random() < 0.5, "msg": gen.rbytes(r, L).hex(), "exclude": exclude, "mode": "encrypt", "other": "%064x" % r.randrange(1, ec.N), "seed": r.getrandbits(30)}
    if S == 0:
        ctx.exhaustive.append("every message length 0..64 x both inclusion modes; all single-bit flips of each serialised ciphertext with message <= 48 bytes")
    # exclusion-mode ciphertexts whose BODY begins with the encoding of a valid compressed public key (crafted through the reference:
    # choose the first ciphertext blocks, decrypt them to find the message)
    for i in range(12 if t else 1):
        if not t and S % 4:
            break
        a, b = r.randrange(1, ec.N), r.randrange(1, ec.N)
        iv, ke, km = ref_keys(a, ec.mul_g(b))
        want = ec.ser(ec.mul_g(r.randrange(1, ec.N)), True) + gen.rbytes(r, 15)  # 48 bytes = three blocks
        rk = aes.expand_key(ke)
        prev, m = iv, b""
        for j in range(0, 48, 16):
            blk = want[j : j + 16]
            m += bytes(x ^ y for x, y in zip(aes.dec_block(rk, blk), prev))
            prev = blk
        m += gen.rbytes(r, r.choice([0, 5, 16]))
        yield {"k": "enc", "a": "%064x" % a, "b": "%064x" % b, "ca": True, "cb": True, "msg": m.hex(), "exclude": True, "mode": "encrypt", "other": "%064x" % r.randrange(1, ec.N), "seed": r.getrandbits(30), "crafted": True}
    # key PAIRS whose shared x coordinate starts with two zero bytes (one pair in 65536; found by walking d*P with the reference and kept
    # as constants): the key derivation hashes the full 33-byte compressed point, leading zeros included
    RARE_SHARED_X = [("a1cc719db7052664941707dc8770f0b6d75df7ee5c1faa9f52135cb13ccc38b8", "302f0ae02661ddfe99635f3e1fc4be40d2edd018cbf9952fe408726b64557121"), ("a1cc719db7052664941707dc8770f0b6d75df7ee5c1faa9f52135cb13ccc38b8", "302f0ae02661ddfe99635f3e1fc4be40d2edd018cbf9952fe408726b6456f184"), ("50060e38340466fac2041ff7e990b3eace0bd65b6406d27dd0c95e2c411bff13", "43562f72bf9b44383f98f1bb8c9e51d5ce8567493b22e7dedc4bcc230697b683"), ("50060e38340466fac2041ff7e990b3eace0bd65b6406d27dd0c95e2c411bff13", "43562f72bf9b44383f98f1bb8c9e51d5ce8567493b22e7dedc4bcc230697c315")]
    for pi_, (ra, rb) in enumerate(RARE_SHARED_X):
        if pi_ % N == S % len(RARE_SHARED_X) and S < 4 * len(RARE_SHARED_X):
            for exclude in (False, True):
                for (a_, b_) in ((ra, rb), (rb, ra)):
                    yield {"k": "enc", "a": a_, "b": b_, "ca": bool(S & 4), "cb": bool(S & 8), "msg": gen.rbytes(r, r.choice([0, 1, 15, 16, 17, 100])).hex(), "exclude": exclude, "mode": "encrypt", "other": "%064x" % r.randrange(1, ec.N), "seed": r.getrandbits(30), "rare_shared_x": True}
    # the message IS a serialised envelope (forwarded / nested envelopes), of either inclusion mode
    for i in range(8 if t else 2):
        if not t and S % 4 != 1:
            break
        a, b = r.randrange(1, ec.N), r.randrange(1, ec.N)
        inner, _ = ref_bie1(r.randrange(1, ec.N), ec.mul_g(r.randrange(1, ec.N)), gen.rbytes(r, r.choice([0, 7, 16])), bool(i & 1))
        for exclude in (False, True):
            yield {"k": "enc", "a": "%064x" % a, "b": "%064x" % b, "ca": True, "cb": True, "msg": inner.hex(), "exclude": exclude, "mode": "encrypt", "other": "%064x" % r.randrange(1, ec.N), "seed": r.getrandbits(30), "nested": True}
    # envelopes whose LAST bytes look like text line ends / padding (0d 0a, 0a 0a, 0a, 0d, 20, 00): the messages were found by
    # searching with the reference (keys 11..11 / 22..22, message "line-end-search-<n>"; about one in 65 536 for two bytes)
    if S % 4 == 2 or t:
        LE = {False: {"0d": 143, "0a": 188, "00": 268, "20": 341, "0a0a": 84155, "0d0a": 85480}, True: {"0a": 4, "20": 47, "0d": 196, "00": 333, "0d0a": 62481, "0a0a": 84097}}
        for exclude in (False, True):
            for tail, ctr in LE[exclude].items():
                yield {"k": "enc", "a": "11" * 32, "b": "22" * 32, "ca": True, "cb": True, "msg": (b"line-end-search-%d" % ctr).hex(), "exclude": exclude, "mode": "encrypt", "other": "%064x" % r.randrange(1, ec.N), "seed": r.getrandbits(30), "tail": tail}
    for i in range(120 if t else 4):
        a, b = r.randrange(1, ec.N), r.randrange(1, ec.N)
        base = {"k": "enc", "a": "%064x" % a, "b": "%064x" % b, "ca": r.random() < 0.5, "cb": r.random() < 0.5, "msg": gen.rbytes(r, r.choice([0, 5, 16, 31, 32, 70])).hex(), "exclude": False, "other": "%064x" % r.randrange(1, ec.N), "seed": r.getrandbits(30)}
        yield dict(base, mode="self")
        yield dict(base, mode="pubkey")
        yield dict(base, mode="ephemeral")


def judge(ctx, case):
    import random

    rnd = random.Random(case["seed"])
    a, b = int(case["a"], 16), int(case["b"], 16)
    msg = bytes.fromhex(case["msg"])
    mode = case["mode"]
    exclude = case["exclude"]
    ctx.nontrivial()
    ctx.hit("enc")
    ctx.hit("mode_" + mode)
    if exclude:
        ctx.hit("exclude")
    if case.get("rare_shared_x"):
        ctx.hit("shared_x_with_two_leading_zero_bytes")
    if case.get("crafted"):
        ctx.hit("body_starts_with_a_valid_public_key")
    if case.get("nested"):
        ctx.hit("message_is_an_envelope")
    if case.get("tail"):
        ctx.hit("envelope_ends_in_" + case["tail"])
        if not ref_bie1(a, ec.mul_g(b), msg, exclude)[0].hex().endswith(case["tail"]):
            ctx.note("line-end search constant does not reproduce (reference changed?)")
    if len(msg) >= 16384:
        ctx.hit("len>=16384")
    if mode == "self":
        b = a
    A, B = ec.mul_g(a), ec.mul_g(b)
    pubB = ec.ser(B, case["cb"] if mode != "self" else case["ca"])
    req = {"op": "ecies_enc", "mode": mode, "msg": case["msg"], "pub": pubB.hex(), "key": case["a"], "compressed": case["ca"], "exclude": exclude, "recipient_key": "%064x" % b, "wrong_key": case["other"]}
    e = ctx.call(req)
    ctx.ev()
    if "ok" not in e:
        ctx.viol("ECIES encryption failed for valid arguments (%s)" % mode, {"resp": str(e)[:200]})
        return
    o = e["ok"]
    ser = bytes.fromhex(o["bytes"])
    if mode != "ephemeral":
        exp, (iv, ke, km) = ref_bie1(a, B, msg, exclude)
        if ser != exp:
            what = "length" if len(ser) != len(exp) else "magic" if ser[:4] != exp[:4] else "embedded key" if not exclude and ser[4:37] != exp[4:37] else "MAC" if ser[:-32] == exp[:-32] else "ciphertext body"
            ctx.viol("serialised ECIES ciphertext differs from the independent BIE1 construction (%s, %s)" % (what, "key excluded" if exclude else "key included"), {"got": o["bytes"][:200], "exp": exp.hex()[:200]})
        if "keys" in o and (o["keys"]["iv"], o["keys"]["ke"], o["keys"]["km"]) != (iv.hex(), ke.hex(), km.hex()):
            ctx.viol("derived cipher keys differ from SHA-512(compressed ECDH point)", {})
        for fld in ("derive_sender", "derive_recipient"):
            if fld in o:
                ctx.ev()
                ctx.hit("derive_cipher_keys")
                k = o[fld].get("ok")
                if k is None or (k["iv"], k["ke"], k["km"]) != (iv.hex(), ke.hex(), km.hex()):
                    ctx.viol("ECIES::derive_cipher_keys (%s side) differs from SHA-512(compressed ECDH point)" % fld.split("_")[1], {"resp": str(o[fld])[:200]})
    else:
        ctx.hit("ephemeral")
        ctx.ev()
        if ref_decrypt(ser, None, b, True) != msg:
            ctx.viol("reference BIE1 decryption of an ephemeral-key ciphertext does not return the message", {"bytes": o["bytes"][:200]})
    ctx.ev()
    if o.get("direct_decrypt", {}).get("ok") != case["msg"]:
        ctx.viol("decrypt(encrypt(m)) != m before serialisation (%s)" % mode, {"resp": str(o.get("direct_decrypt"))[:200]})
    if len(msg) >= 65400:
        ctx.hit("len>=65400")
    # the genuine sender key in the other SEC1 form decrypts just the same
    for fld in ("direct_decrypt_other_form", "direct_decrypt_other_form_via_key"):
        if fld in o and mode != "ephemeral":
            ctx.ev()
            ctx.hit("sender_key_other_form")
            if o[fld].get("ok") != case["msg"]:
                ctx.viol("decryption fails when the genuine sender key is given in the other SEC1 form (%s, %s)" % ("PrivateKey::decrypt_message" if fld.endswith("via_key") else "ECIES::decrypt", "key excluded" if exclude else "key included"), {"resp": str(o[fld])[:200]})
    # the negated sender key (same x coordinate) right after a genuine decryption on the same thread, then the genuine key again
    if "direct_decrypt_negated_sender" in o and mode != "ephemeral":
        for fld in ("direct_decrypt_negated_sender", "direct_decrypt_negated_sender_via_key"):
            ctx.ev()
            ctx.hit("negated_sender_key")
            if "ok" in o[fld]:
                ctx.viol("decrypting right after a genuine decryption with the NEGATED sender key returns plaintext (%s)" % ("PrivateKey::decrypt_message" if fld.endswith("via_key") else "ECIES::decrypt"), {"mode": mode})
        if o.get("direct_decrypt_again", {}).get("ok") != case["msg"]:
            ctx.viol("a genuine decryption fails after a decryption attempt with the negated sender key", {"resp": str(o.get("direct_decrypt_again"))[:200]})
    # the in-memory ciphertext object (never serialised) must not decrypt under a wrong recipient or sender key either
    for fld, what in (("direct_decrypt_wrong_recipient", "a wrong recipient key"), ("direct_decrypt_wrong_recipient_via_key", "a wrong recipient key (PrivateKey::decrypt_message)"), ("direct_decrypt_wrong_sender", "a wrong sender key"), ("direct_decrypt_wrong_sender_via_key", "a wrong sender key (PrivateKey::decrypt_message)")):
        if fld in o and int(case["other"], 16) not in (a, b):
            if fld.startswith("direct_decrypt_wrong_sender") and mode == "ephemeral":
                continue
            ctx.ev()
            ctx.hit("wrong_key_in_memory")
            if "ok" in o[fld]:
                ctx.viol("decrypting the in-memory ciphertext object with %s returns plaintext" % what, {"mode": mode})
    has_pub = not exclude
    sender_pub = ec.ser(A, True).hex() if exclude else None
    for via_key in (False, True):
        dreq = {"op": "ecies_dec", "bytes": o["bytes"], "has_pub": has_pub, "key": "%064x" % b, "via_key": via_key}
        if sender_pub:
            dreq["sender_pub"] = sender_pub
        d = ctx.call(dreq)
        ctx.ev()
        if d.get("ok", {}).get("plain") != case["msg"]:
            ctx.viol("decrypt(parse(serialise(encrypt(m)))) != m (%s, %s)" % (mode, "key excluded" if exclude else "key included"), {"resp": str(d.get("ok", d))[:200]})
        elif d["ok"]["reser"] != o["bytes"]:
            ctx.viol("parsed ciphertext re-serialises differently", {})
    # wrong sender key supplied explicitly after the serialise / parse trip (both decrypt entry points)
    if mode != "ephemeral" and int(case["other"], 16) not in (a, b):
        for via_key in (False, True):
            d = ctx.call(dict(op="ecies_dec", bytes=o["bytes"], has_pub=has_pub, key="%064x" % b, via_key=via_key, sender_pub=ec.ser(ec.mul_g(int(case["other"], 16)), True).hex()))
            ctx.ev()
            ctx.hit("wrong_sender_after_parse")
            if d.get("ok", {}).get("stage") == "done":
                ctx.viol("decryption with a wrong sender key returns plaintext (%s, %s)" % ("PrivateKey::decrypt_message" if via_key else "ECIES::decrypt", "key included" if has_pub else "key excluded"), {})
    # wrong recipient key / wrong sender key
    ctx.hit("wrong_key")
    wr = dict(op="ecies_dec", bytes=o["bytes"], has_pub=has_pub, key=case["other"])
    if sender_pub:
        wr["sender_pub"] = sender_pub
    d = ctx.call(wr)
    ctx.ev()
    if d.get("ok", {}).get("stage") == "done":
        ctx.viol("decryption with a wrong recipient key returns plaintext", {})
    if exclude:
        d = ctx.call(dict(op="ecies_dec", bytes=o["bytes"], has_pub=False, key="%064x" % b, sender_pub=ec.ser(ec.mul_g(int(case["other"], 16)), True).hex()))
        ctx.ev()
        if d.get("ok", {}).get("stage") == "done":
            ctx.viol("decryption with a wrong sender key returns plaintext", {})
    # tampering: every single-bit flip
    nbits = len(ser) * 8
    if len(msg) <= 48:
        positions = range(nbits)
    elif len(msg) <= 70000:
        positions = sorted(set(rnd.randrange(nbits) for _ in range(300)) | set(range(0, 37 * 8 if has_pub else 32)) | set(range(nbits - 33 * 8, nbits)))
    else:
        # very long messages: every flip ships the whole envelope again, so only a handful of positions (first / last block, MAC, a few random)
        positions = sorted(set(rnd.randrange(nbits) for _ in range(6)) | {40 * 8 + 1, nbits - 33 * 8 - 3, nbits - 5, nbits - 250})
    pub_end = 37 if has_pub else 4
    for bit in positions:
        fl = bytearray(ser)
        fl[bit // 8] ^= 1 << (bit % 8)
        region = "magic" if bit < 32 else "pub" if bit < pub_end * 8 else "mac" if bit >= nbits - 256 else "body"
        dreq = {"op": "ecies_dec", "bytes": bytes(fl).hex(), "has_pub": has_pub, "key": "%064x" % b}
        if sender_pub:
            dreq["sender_pub"] = sender_pub
        d = ctx.call(dreq)
        ctx.ev()
        ctx.hit("flip")
        ctx.hit("flip_" + region)
        if d.get("ok", {}).get("stage") == "done":
            if region == "magic":
                ctx.note("bit flip inside the 4 magic bytes still decrypts (informational: from_bytes ignores the magic)")
            else:
                ctx.viol("ciphertext with one flipped bit in the %s still decrypts" % {"pub": "embedded public key", "mac": "MAC", "body": "ciphertext body"}[region], {"bit": bit})
        elif "ok" not in d:
            ctx.note("tampered ciphertext: %s" % [q for q in ("panic", "death", "alloc_guard", "err") if q in d][:1])
        if region == "pub" and mode != "ephemeral":
            # same tampered bytes, but the caller passes the genuine sender key explicitly: the embedded key is authenticated by the MAC,
            # so this must fail as well
            d2 = ctx.call({"op": "ecies_dec", "bytes": bytes(fl).hex(), "has_pub": True, "key": "%064x" % b, "sender_pub": ec.ser(A, True).hex()})
            ctx.ev()
            ctx.hit("flip_pub_with_genuine_sender_key")
            if d2.get("ok", {}).get("stage") == "done":
                ctx.viol("ciphertext with one flipped bit in the embedded public key still decrypts when the genuine sender key is supplied", {"bit": bit})
