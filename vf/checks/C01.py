"""C01 — transaction wire format: parse/serialise exact inverses, id, accessors, construction API, normalisation fixed point."""
from .. import gen
from ..ref import wire

ID = "C01"
RULE = (
    "cases: transactions generated from field grammars (boundary counts/script lengths/integers, coinbase inputs with arbitrary payloads, "
    "grammar scripts with every push form and nested conditionals), encoded by the reference codec, decoded by the library and compared "
    "accessor by accessor; the same fields assembled through the construction API (5 build methods); byte-mutations of valid encodings "
    "checked for the parse/serialise fixed point; stand-alone TxIn/TxOut decoding; varint helpers. "
    "non-trivial = distinct case whose transaction has >=1 input or output (or a helper case n>252)"
)
ASSUMPTIONS = ["reference codec vf/ref/wire.py; 'script the library accepts' is approximated conservatively by: complete pushes, defined opcodes, balanced conditionals, no stray ELSE/ENDIF"]
NSHARDS = {"quick": 32, "thorough": 64}
BUDGET_S = {"quick": 200, "thorough": 1800}
MIN_HITS = {
    'quick': {"gen_accepted": 874, "build": 4370, "mutant": 10080, "mutant_accepted": 4117, "coinbase_tx": 96, "count>=253": 20, "scriptlen>=65536": 12},
    'thorough': {"gen_accepted": 76987, "build": 384912, "mutant": 1075200, "mutant_accepted": 444576, "coinbase_tx": 6697, "count>=253": 28, "count>=65536": 2, "scriptlen>=65536": 15},
}

COUNTS_Q = [0, 1, 2, 3, 252, 253, 254, 255, 256, 300]
COUNTS_T = COUNTS_Q + [65535, 65536]
SLENS = [0, 1, 75, 76, 252, 253, 254, 255, 256, 65535, 65536, 65537, 300000]


def script_of_len(r, n):
    """a script the library accepts of exactly n bytes"""
    if n == 0:
        return b""
    k = r.randrange(3)
    if k == 0 or n < 6:
        return bytes(r.choice([0x51, 0x61, 0x76, 0xAC]) for _ in range(n))
    if k == 1:
        # one big push (non-minimal form allowed) filling the length exactly, padded with NOPs
        for pre in (5, 3, 2):
            body = n - pre
            if pre == 5:
                return bytes([78]) + body.to_bytes(4, "little") + gen.rbytes(r, body)
        return b"\x61" * n
    out = bytearray()
    while len(out) < n:
        left = n - len(out)
        if left >= 4 and r.random() < 0.5:
            ln = min(left - 3, r.choice([1, 20, 75, 76, 255, 256, 1000]))
            out += bytes([77]) + ln.to_bytes(2, "little") + gen.rbytes(r, ln)
        else:
            out.append(r.choice([0x51, 0x61, 0x76, 0x00]))
    return bytes(out[:n]) if len(out) == n else b"\x61" * n


def enc_case(tx, tag):
    return {
        "k": "gen",
        "tag": tag,
        "version": tx["version"],
        "locktime": tx["locktime"],
        "ins": [{"txid_wire": i["txid_wire"].hex(), "vout": i["vout"], "script": i["script"].hex(), "seq": i["seq"]} for i in tx["ins"]],
        "outs": [{"value": o["value"], "script": o["script"].hex()} for o in tx["outs"]],
    }


def dec_case(c):
    return {
        "version": c["version"],
        "locktime": c["locktime"],
        "ins": [{"txid_wire": bytes.fromhex(i["txid_wire"]), "vout": i["vout"], "script": bytes.fromhex(i["script"]), "seq": i["seq"]} for i in c["ins"]],
        "outs": [{"value": o["value"], "script": bytes.fromhex(o["script"])} for o in c["outs"]],
    }


def cases(ctx):
    r = ctx.rnd
    S, N = ctx.shard, ctx.nshards
    thorough = ctx.tier == "thorough"
    k = 0
    # boundary counts (empty-ish scripts so the encodings stay small)
    counts = COUNTS_T if thorough else COUNTS_Q
    for ni in counts:
        for no in (0, 1, 253):
            for swap in (False, True):
                k += 1
                if k % N != S:
                    continue
                a, b = (no, ni) if swap else (ni, no)
                if max(a, b) >= 65535 and min(a, b) > 1:
                    continue
                small = {"n_tokens": 1, "push_lens": [0, 1, 2]}
                tx = gen.gen_tx(r, a, b, coinbase=False, script_kw=small if max(a, b) > 300 else {"n_tokens": r.choice([0, 1, 2])})
                yield enc_case(tx, "counts")
    # boundary script lengths in inputs and outputs
    for L in SLENS:
        for where in ("in", "out", "cb"):
            k += 1
            if k % N != S:
                continue
            tx = gen.gen_tx(r, 2, 2, coinbase=False, script_kw={"n_tokens": 2})
            if where == "in":
                tx["ins"][1]["script"] = script_of_len(r, L)
            elif where == "out":
                tx["outs"][0]["script"] = script_of_len(r, L)
            else:
                tx["ins"] = [gen.gen_txin(r, script=gen.rbytes(r, L), coinbase=True)]
            yield enc_case(tx, "scriptlen")
    # integer extremes
    for v in gen.B32:
        k += 1
        if k % N != S:
            continue
        tx = gen.gen_tx(r, 1, 1, coinbase=False)
        tx["version"] = v
        tx["locktime"] = gen.B32[(gen.B32.index(v) + 3) % len(gen.B32)]
        tx["ins"][0]["vout"] = v
        tx["ins"][0]["seq"] = gen.B32[(gen.B32.index(v) + 5) % len(gen.B32)]
        yield enc_case(tx, "ints")
    for v in gen.B64:
        k += 1
        if k % N != S:
            continue
        tx = gen.gen_tx(r, 1, 2)
        tx["outs"][0]["value"] = v
        tx["outs"][1]["value"] = 0
        yield enc_case(tx, "ints")
    # scripts with structure the random grammar rarely produces: several OP_ELSE in one conditional, empty branches, conditionals
    # opened by each of the four openers, nested in pass and else branches - in an input and in an output
    STRUCT = ["76a914" + "00" * 19 + "88ac", "76a914" + "22" * 20 + "88ac" + "76a914" + "33" * 20 + "88ac", "76a914" + "44" * 20 + "5188ac", "76a914" + "55" * 20 + "6188ac76a988ac", "63676768", "635167526753 68".replace(" ", ""), "6367686367 67 68".replace(" ", ""), "64676767 68".replace(" ", ""), "63 63 67 67 68 67 67 68".replace(" ", ""), "63 67 63 67 67 68 67 68".replace(" ", ""),
              "6368", "636768", "656768", "66676768", "51 63 00 67 51 67 00 68".replace(" ", ""), "63 64 65 66 68 68 68 68".replace(" ", ""), "63 4c00 67 4d0000 67 4e00000000 68".replace(" ", "")]
    for si, sh in enumerate(STRUCT):
        k += 1
        if k % N != S:
            continue
        tx = gen.gen_tx(r, 2, 2, coinbase=False)
        tx["ins"][si % 2]["script"] = bytes.fromhex(sh)
        tx["outs"][(si + 1) % 2]["script"] = bytes.fromhex(sh)
        yield enc_case(tx, "structural_scripts")
    # script lengths spaced logarithmically (windows between the classic compact-size boundaries), in an input, an output and a coinbase input
    for li, L in enumerate(sorted(set([75, 76, 255, 256, 520, 521] + [v for k_ in range(9, 18) for v in (2**k_ - 1, 2**k_, 2**k_ + 1, 3 * 2 ** (k_ - 1))] + [100000]))):
        k += 1
        if k % N != S:
            continue
        tx = gen.gen_tx(r, 1, 1, coinbase=False)
        tx["ins"][0]["script"] = script_of_len(r, L)
        tx["outs"][0]["script"] = script_of_len(r, L)
        yield enc_case(tx, "log_spaced_script_length")
        tx = gen.gen_tx(r, 1, 1, coinbase=False)
        tx["ins"] = [gen.gen_txin(r, script=gen.rbytes(r, L), coinbase=True)]
        yield enc_case(tx, "log_spaced_script_length")
    # transactions WITHOUT inputs (and without outputs), with lock times / versions whose bytes look like the markers of other formats
    # right after the version field (00 01 = segwit marker+flag, 00 00 00 00 00 EF = extended-format marker)
    for li, (no_, lt) in enumerate([(0, 0xEF000000), (0, 0x000000EF), (0, 0), (0, 0xEF), (0, 0xFFFFFFFF), (1, 0xEF000000), (1, 0), (2, 0x01000000), (0, 0x00EF0000), (0, 0x0000EF00)]):
        k += 1
        if k % N != S:
            continue
        for ver in (1, 2, 0, 0xEF, r.getrandbits(32)):
            tx = gen.gen_tx(r, 0, no_, coinbase=False)
            tx["version"], tx["locktime"] = ver, lt
            if no_:
                tx["outs"][0]["value"] = r.choice([0x0000000000000001, 0xEF00000000000000, 0])
            yield enc_case(tx, "no_inputs_marker_like")
    # repeated elements: two or more inputs naming the SAME outpoint (consensus-invalid, but a well-formed byte string all the same),
    # identical inputs, identical outputs
    for di in range(6):
        k += 1
        if k % N != S:
            continue
        tx = gen.gen_tx(r, r.choice([2, 3, 5]), r.choice([2, 3]), coinbase=False)
        a, b = r.sample(range(len(tx["ins"])), 2)
        if di % 3 == 0:
            tx["ins"][b] = dict(tx["ins"][a])
        elif di % 3 == 1:
            tx["ins"][b] = dict(tx["ins"][b], txid_wire=tx["ins"][a]["txid_wire"], vout=tx["ins"][a]["vout"])
        else:
            tx["ins"] = [dict(tx["ins"][a]) for _ in tx["ins"]]
        tx["outs"][1] = dict(tx["outs"][0])
        yield enc_case(tx, "repeated_elements")
    # random generated + mutated
    n = 2000 if thorough else 45
    for _ in range(n):
        tx = gen.gen_tx(r, script_kw={"minimal": r.random() < 0.5, "depth": r.choice([1, 3, 6])})
        c = enc_case(tx, "random")
        if r.random() < 0.3:
            c["via_hex"] = True  # Transaction::from_hex instead of from_bytes
        yield c
        raw = wire.tx_encode(tx)
        for _ in range(12):
            yield {"k": "mut", "hex": gen.mutate(r, raw, r.choice([1, 1, 1, 2, 3])).hex()}
        # trailing bytes and non-canonical compact-size are "any other accepted byte string"
        yield {"k": "mut", "hex": (raw + gen.rbytes(r, r.randrange(1, 5))).hex()}
        yield {"k": "mut", "hex": (raw[:4] + b"\xfd" + len(tx["ins"]).to_bytes(2, "little") + raw[5:]).hex() if len(tx["ins"]) < 0xFD else raw.hex()}
        # stand-alone input / output
        if tx["ins"]:
            i = r.choice(tx["ins"])
            yield {"k": "txin", "hex": wire.txin_encode(i).hex()}
        if tx["outs"]:
            o = r.choice(tx["outs"])
            yield {"k": "txout", "hex": wire.txout_encode(o).hex()}
    for v in (gen.B64 + [252, 253, 65535, 65536, 2**32 - 1, 2**32])[S::N]:
        yield {"k": "varint", "n": v}
    yield from txin_hist_cases(r, 400 if thorough else 12)
    # construction histories: the id / size / bytes accessors are read after EVERY construction step on the same live object
    for _ in range(60 if thorough else 4):
        steps = []
        ins, outs = [], []
        version, locktime = gen.u32(r), gen.u32(r)
        for j in range(r.choice([3, 6, 12])):
            x = r.random()
            if x < 0.3:
                i = gen.gen_txin(r, script=gen.gen_script(r, 2))
                q = {"txid": i["txid_wire"][::-1].hex(), "vout": i["vout"], "script": i["script"].hex(), "seq": i["seq"]}
                pos = r.randrange(len(ins) + 1)
                ins.insert(pos, i)
                steps.append({"op": "insert_input", "i": pos, "in": q})
            elif x < 0.55:
                o = gen.gen_txout(r, script=gen.gen_script(r, 2))
                pos = r.randrange(len(outs) + 1)
                outs.insert(pos, o)
                steps.append({"op": "insert_output", "i": pos, "out": {"value": o["value"], "script": o["script"].hex()}})
            elif x < 0.62:
                # batch appends on a transaction that may already hold elements
                if r.random() < 0.5:
                    batch = [gen.gen_txin(r, script=gen.gen_script(r, 1)) for _ in range(r.randrange(1, 4))]
                    ins.extend(batch)
                    steps.append({"op": "add_inputs", "ins": [{"txid": b_["txid_wire"][::-1].hex(), "vout": b_["vout"], "script": b_["script"].hex(), "seq": b_["seq"]} for b_ in batch]})
                else:
                    batch = [gen.gen_txout(r, script=gen.gen_script(r, 1)) for _ in range(r.randrange(1, 4))]
                    outs.extend(batch)
                    steps.append({"op": "add_outputs", "outs": [{"value": b_["value"], "script": b_["script"].hex()} for b_ in batch]})
            elif x < 0.7:
                version = gen.u32(r)
                steps.append({"op": "set_version", "v": version, "adopt": r.random() < 0.5})
            elif x < 0.85:
                locktime = gen.u32(r)
                steps.append({"op": "set_nlocktime", "v": locktime, "adopt": r.random() < 0.5})
            elif x < 0.93 and outs:
                pos = r.randrange(len(outs))
                outs[pos] = dict(outs[pos], value=gen.u64(r))
                steps.append({"op": "set_output", "i": pos, "out": {"value": outs[pos]["value"], "script": outs[pos]["script"].hex()}})
            else:
                steps.append({"op": "get_id"})
            steps[-1]["model"] = wire.tx_encode({"version": version, "ins": ins, "outs": outs, "locktime": locktime}).hex()
        yield {"k": "build_history", "steps": steps}


def txin_hist_cases(r, n):
    """setter histories on ONE live input object: parsed (coinbase or not) or built, then re-pointed / re-scripted step by step"""
    NULL = "00" * 32
    for _ in range(n):
        start_cb = r.random() < 0.5
        script = gen.rbytes(r, r.choice([2, 5, 40, 100])) if start_cb else gen.gen_script(r, 2)
        single_push = r.random() < 0.35
        if single_push:
            # a REGULAR script consisting of exactly one direct push, on the null outpoint, handed to TxIn::new / the setter as a script
            pl = r.choice([1, 3, 4, 20, 75])
            script = bytes([pl]) + gen.rbytes(r, pl)
            start_cb = True
        m = {"txid": NULL if start_cb else gen.rbytes(r, 32).hex(), "vout": 0xFFFFFFFF if start_cb else r.choice([0, 1, 0xFFFFFFFF, gen.u32(r)]), "script": script.hex(), "seq": gen.u32(r)}
        parsed = r.random() < 0.6
        steps = []
        models = [dict(m)]
        for _ in range(r.randrange(1, 6)):
            x = r.random()
            if x < 0.3:
                m["txid"] = r.choice([NULL, NULL, gen.rbytes(r, 32).hex(), "00" * 31 + "01"])
                steps.append({"op": "set_prev_tx_id", "txid": m["txid"]})
            elif x < 0.55:
                m["vout"] = r.choice([0xFFFFFFFF, 0xFFFFFFFF, 0, 0xFFFFFFFE, gen.u32(r)])
                steps.append({"op": "set_vout", "v": m["vout"]})
            elif x < 0.7:
                m["seq"] = gen.u32(r)
                steps.append({"op": "set_sequence", "v": m["seq"]})
            elif x < 0.85:
                as_cb = r.random() < 0.5
                sc = gen.rbytes(r, r.choice([2, 7, 33])) if as_cb else gen.gen_script(r, 2)
                if not as_cb and r.random() < 0.4:
                    pl = r.choice([1, 4, 33, 75])
                    sc = bytes([pl]) + gen.rbytes(r, pl)
                m["script"] = sc.hex()
                steps.append({"op": "set_unlocking_script", "script": sc.hex(), "coinbase": as_cb})
            elif x < 0.93:
                steps.append({"op": "set_satoshis", "v": gen.u64(r)})
            else:
                steps.append({"op": "clone"})
            models.append(dict(m))
        yield {"k": "txin_hist", "parsed": parsed and not single_push, "start_coinbase_script": start_cb and not single_push, "start": models[0], "steps": steps, "models": models, "single_push_on_null_outpoint": single_push}


def extra_stages(tier, seed, res):
    """thorough only: libFuzzer finder on the transaction parse/serialise fixed point; artifacts and corpus are re-judged as mutant cases"""
    if tier != "thorough":
        return []
    from . import C09

    r = __import__("random").Random(seed)
    seeds = [b"\x01" + wire.tx_encode(gen.gen_tx(r, a, b, script_kw={"n_tokens": 2})) for a, b in ((1, 1), (2, 2), (0, 1), (3, 0))]
    return C09.fuzz_stage(__name__, tier, seed, "roundtrip", 120, lambda data, cls: ([{"k": "mut", "hex": data[1:].hex()}] if data and data[0] & 1 == 1 else []), seeds=seeds, max_len=2048)


def definitely_accepted(sc):
    try:
        toks = wire.tokenize(sc)
    except wire.ScriptTrunc:
        return False
    depth = 0
    known = set(wire.LIB_OPCODES)
    for t in toks:
        if t[0] != "op":
            continue
        if t[1] not in known:
            return False
        if t[1] in (99, 100, 101, 102):
            depth += 1
        elif t[1] in (103, 104):
            if depth == 0:
                return False
            if t[1] == 104:
                depth -= 1
    return depth == 0


def pick_idx(r_hash, n):
    if n <= 40:
        return list(range(n))
    base = {0, 1, 2, n - 1, n - 2, 251, 252, 253, 254, 255, 256, 257, 65534, 65535, 65536}
    base |= {(r_hash * (j + 1) * 2654435761) % n for j in range(12)}
    return sorted(i for i in base if 0 <= i < n)


def compare_dump(ctx, o, tx, raw, idx_in, idx_out, where):
    """accessor-by-accessor comparison of a driver dump `o` with reference fields `tx` (whose canonical encoding is `raw`)"""
    bad = []

    def chk(name, got, exp):
        ctx.ev()
        if got != exp:
            bad.append((name, repr(got)[:80], repr(exp)[:80]))

    chk("to_bytes", o["bytes"], raw.hex())
    chk("hex_eq", o["hex_eq"], True)
    chk("id", o["id"], wire.txid(raw).hex())
    chk("id_bytes", o["id_bytes"], wire.txid(raw).hex())
    chk("version", o["version"], tx["version"])
    chk("locktime", o["locktime"], tx["locktime"])
    chk("n_in", o["n_in"], len(tx["ins"]))
    chk("n_out", o["n_out"], len(tx["outs"]))
    chk("size", o["size"], len(raw))
    chk("is_coinbase", o["is_coinbase"], len(tx["ins"]) == 1 and wire.is_coinbase_in(tx["ins"][0]))
    chk("n_outpoints", o["n_outpoints"], len(tx["ins"]))
    chk("oob", o["oob"], [True, True])
    if "sat_out" in o:
        chk("sat_out", o["sat_out"], sum(x["value"] for x in tx["outs"]))
        chk("sat_in", o["sat_in"], None)
    chk("ins_listed", [x["i"] for x in o["ins"]], idx_in)
    chk("outs_listed", [x["i"] for x in o["outs"]], idx_out)
    for x, op in zip(o["ins"], o["outpoints"]):
        e = tx["ins"][x["i"]]
        vle = e["vout"].to_bytes(4, "little")
        chk("in.txid_be", x["txid_be"], e["txid_wire"][::-1].hex())
        chk("in.txid_le", x["txid_le"], e["txid_wire"].hex())
        chk("in.txid_hex", x["txid_hex_be"], e["txid_wire"][::-1].hex())
        chk("in.vout", x["vout"], e["vout"])
        chk("in.seq", x["seq"], e["seq"])
        chk("in.script", x["script"], e["script"].hex())
        chk("in.script2", x["script2"], e["script"].hex())
        chk("in.script_size", x["script_size"], len(e["script"]))
        chk("in.coinbase", x["coinbase"], wire.is_coinbase_in(e))
        chk("in.satoshis", x["satoshis"], None)
        chk("in.locking", x["locking"], None)
        chk("in.outpoint_le", x["outpoint_le"], (e["txid_wire"] + vle).hex())
        chk("in.outpoint_hex_be", x["outpoint_hex_be"], (e["txid_wire"][::-1] + vle).hex())
        chk("tx.outpoints[i]", op, (e["txid_wire"] + vle).hex())
    for x in o["outs"]:
        e = tx["outs"][x["i"]]
        chk("out.value", x["value"], e["value"])
        chk("out.script", x["script"], e["script"].hex())
        chk("out.script2", x["script2"], e["script"].hex())
        chk("out.size", x["size"], len(e["script"]))
    for name, got, exp in bad[:6]:
        ctx.viol("%s: accessor %s disagrees with the independent decoder" % (where, name), {"got": got, "expected": exp})
    return not bad


def judge(ctx, case):
    k = case["k"]
    if k == "gen":
        tx = dec_case(case)
        raw = wire.tx_encode(tx)
        ni, no = len(tx["ins"]), len(tx["outs"])
        if ni or no:
            ctx.nontrivial()
        ctx.hit("gen")
        if case.get("tag"):
            ctx.hit("tag_" + case["tag"])
        if case.get("via_hex"):
            ctx.hit("via_from_hex")
        if max(ni, no) >= 253:
            ctx.hit("count>=253")
        if max(ni, no) >= 65536:
            ctx.hit("count>=65536")
        if any(len(x["script"]) >= 65536 for x in tx["ins"] + tx["outs"]):
            ctx.hit("scriptlen>=65536")
        if any(wire.is_coinbase_in(i) for i in tx["ins"]):
            ctx.hit("coinbase_tx")
        h = int.from_bytes(wire.sha256(raw)[:4], "big")
        idx_in, idx_out = pick_idx(h, ni), pick_idx(h + 1, no)
        totals = sum(x["value"] for x in tx["outs"]) < 2**64
        if not totals:
            ctx.note("totals_not_asserted_sum_exceeds_u64")
        r = ctx.call({"op": "tx_decode", "hex": raw.hex(), "idx_in": idx_in, "idx_out": idx_out, "totals": totals, "via_hex": case.get("via_hex", False)})
        if "ok" not in r:
            ctx.ev()
            ctx.viol("well-formed transaction not accepted (%s)" % ("error" if "err" in r else [x for x in r if x in ("panic", "alloc_guard", "death", "timeout")][0:1]), {"resp": {x: r[x] for x in r if x in ("err", "panic", "alloc_guard", "death")}, "hex": raw.hex()[:400]})
            return
        ctx.hit("gen_accepted")
        compare_dump(ctx, r["ok"], tx, raw, idx_in, idx_out, "parse")
        # construction API with the same field values
        if max(ni, no) <= 300:
            for method in ("add", "adds", "prepend", "insert", "setters"):
                req = {
                    "op": "tx_build",
                    "version": tx["version"],
                    "locktime": tx["locktime"],
                    "method": method,
                    "totals": totals,
                    "ins": [{"txid": i["txid_wire"][::-1].hex(), "vout": i["vout"], "script": i["script"].hex(), "coinbase": wire.is_coinbase_in(i), "seq": (None if (i["seq"] == 0xFFFFFFFF and method != "setters") else i["seq"])} for i in tx["ins"]],
                    "outs": [{"value": o["value"], "script": o["script"].hex()} for o in tx["outs"]],
                    "idx_in": idx_in,
                    "idx_out": idx_out,
                }
                ext_set = method == "adds" and ni > 0 and (h % 3 == 0)
                if ext_set:
                    # inputs that also carry the extended fields (value / locking script of the spent output): these are not part of the wire format
                    for j, q in enumerate(req["ins"]):
                        if (h >> j) & 1:
                            q["satoshis"] = (h * 2654435761 + j) % 2**64
                        if (h >> (j + 7)) & 1 or j == 0:
                            q["locking"] = "76a914" + wire.sha256(b"lk%d" % j)[:20].hex() + "88ac"
                    sat = [q.get("satoshis") for q in req["ins"]]
                    if sum(v for v in sat if v is not None) >= 2**64:
                        req["totals"] = False  # the exact input total does not fit the accessor's return type (no claim, as for outputs)
                    ctx.hit("build_with_extended_fields")
                rb = ctx.call(req)
                ctx.hit("build")
                if "ok" not in rb:
                    ctx.ev()
                    ctx.viol("construction API (%s) failed for fields that parse fine" % method, {"resp": {x: rb[x] for x in rb if x in ("err", "panic", "alloc_guard", "death")}})
                else:
                    if ext_set:
                        # the extended accessors legitimately differ from a plain parse; the wire-level clauses must not
                        o2 = rb["ok"]
                        ctx.ev()
                        if "sat_in" in o2:
                            sat = [q.get("satoshis") for q in req["ins"]]
                            want = sum(sat) if all(v is not None for v in sat) else None
                            if o2["sat_in"] != want:
                                ctx.viol("build:adds with extended fields set: input total differs from the sum of the recorded values", {"got": o2["sat_in"], "expected": want})
                        if o2["bytes"] != raw.hex() or o2["id"] != wire.txid(raw).hex() or o2["size"] != len(raw):
                            ctx.viol("build:adds with extended fields set: serialisation / id / size differ from the same fields without them", {"got": o2["bytes"][:300], "expected": raw.hex()[:300]})
                        for x in o2["ins"]:
                            e = tx["ins"][x["i"]]
                            if x["script"] != e["script"].hex() or x["script_size"] != len(e["script"]):
                                ctx.viol("build:adds with extended fields set: unlocking script accessor changed", {"got": x["script"][:100]})
                    else:
                        compare_dump(ctx, rb["ok"], tx, raw, idx_in, idx_out, "build:%s" % method)
    elif k == "mut":
        raw = bytes.fromhex(case["hex"])
        ctx.hit("mutant")
        r = ctx.call({"op": "tx_decode", "hex": case["hex"], "idx_in": [0, 1], "idx_out": [0, 1]})
        try:
            ref = wire.tx_decode(raw)
        except wire.Trunc:
            ref = None
        wellformed = ref is not None and ref["canonical"] and ref["end"] == len(raw) and all(wire.is_coinbase_in(i) or definitely_accepted(i["script"]) for i in ref["ins"]) and all(definitely_accepted(o["script"]) for o in ref["outs"])
        ctx.ev()
        if "ok" in r:
            ctx.hit("mutant_accepted")
            ctx.nontrivial()
            s1 = r["ok"]["bytes"]
            if wellformed:
                ctx.hit("mutant_wellformed")
                if s1 != case["hex"]:
                    ctx.viol("well-formed (mutated) transaction does not round-trip byte-exactly", {"hex": case["hex"][:400], "got": s1[:400]})
            if r["ok"]["id"] != wire.txid(bytes.fromhex(s1)).hex():
                ctx.viol("id is not the reversed double-SHA256 of the serialisation (accepted mutant)", {"hex": case["hex"][:400]})
            r2 = ctx.call({"op": "tx_decode", "hex": s1, "idx_in": [0], "idx_out": [0]})
            ctx.ev()
            if "ok" not in r2:
                ctx.viol("normalised serialisation of an accepted byte string is itself not accepted", {"hex": case["hex"][:400], "s1": s1[:400]})
            elif r2["ok"]["bytes"] != s1:
                ctx.viol("normalised serialisation is not a fixed point of parse-then-serialise", {"hex": case["hex"][:400], "s1": s1[:400], "s2": r2["ok"]["bytes"][:400]})
            if ref is not None and not wellformed:
                ctx.hit("accepted_nonwellformed")
        elif "err" in r:
            ctx.hit("mutant_rejected")
            if wellformed:
                ctx.viol("well-formed (mutated) transaction rejected", {"hex": case["hex"][:400], "err": r["err"]})
        else:
            ctx.note("mutant_" + [x for x in ("panic", "alloc_guard", "death", "timeout", "drv_err") if x in r][0])
            if wellformed:
                ctx.viol("well-formed (mutated) transaction neither accepted nor rejected", {"hex": case["hex"][:400]})
    elif k in ("txin", "txout"):
        raw = bytes.fromhex(case["hex"])
        ctx.hit(k)
        ctx.nontrivial()
        r = ctx.call({"op": k + "_decode", "hex": case["hex"]})
        ctx.ev()
        if "ok" not in r:
            ctx.viol("stand-alone %s of a valid encoding not accepted" % k, {"hex": case["hex"][:300], "resp": {x: r[x] for x in r if x in ("err", "panic")}})
            return
        o = r["ok"]
        if o["bytes"] != case["hex"] or not o["hex_eq"]:
            ctx.viol("stand-alone %s does not round-trip" % k, {"hex": case["hex"][:300], "got": o["bytes"][:300]})
        if k == "txin":
            if (o["txid_le"], o["vout"], o["seq"]) != (raw[:32].hex(), int.from_bytes(raw[32:36], "little"), int.from_bytes(raw[-4:], "little")):
                ctx.viol("stand-alone txin accessors disagree with the bytes", {"hex": case["hex"][:300]})
        else:
            if o["value"] != int.from_bytes(raw[:8], "little"):
                ctx.viol("stand-alone txout value disagrees with the bytes", {"hex": case["hex"][:300]})
    elif k == "txin_hist":
        ctx.hit("txin_hist")
        if case.get("single_push_on_null_outpoint"):
            ctx.hit("single_push_script_on_null_outpoint")
        ctx.nontrivial()
        m0 = case["models"][0]
        enc = lambda m: wire.txin_encode({"txid_wire": bytes.fromhex(m["txid"])[::-1], "vout": m["vout"], "script": bytes.fromhex(m["script"]), "seq": m["seq"]})
        rq = {"op": "txin_hist", "steps": case["steps"]}
        if case["parsed"]:
            rq["hex"] = enc(m0).hex()
        else:
            rq["new"] = {"txid": m0["txid"], "vout": m0["vout"], "script": m0["script"], "seq": m0["seq"], "coinbase": case["start_coinbase_script"]}
        if case["parsed"] and not (m0["txid"] == "00" * 32 and m0["vout"] == 0xFFFFFFFF):
            try:
                toks = wire.tokenize(bytes.fromhex(m0["script"]))
                if wire.detok(toks) != bytes.fromhex(m0["script"]) or wire.unclosed(toks):
                    return
            except Exception:
                return
        r = ctx.call(rq)
        if "ok" not in r:
            ctx.ev()
            if "err" in r and case["parsed"]:
                ctx.note("txin_hist: start input not accepted (C02 territory)")
            else:
                ctx.viol("input setter history could not be executed", {"resp": str(r)[:300]})
            return
        for si, (m, snap) in enumerate(zip(case["models"], r["ok"])):
            ctx.ev()
            what = "start" if si == 0 else case["steps"][si - 1]["op"]
            eb = enc(m)
            null = m["txid"] == "00" * 32 and m["vout"] == 0xFFFFFFFF
            ctx.hit("txin_hist_null_outpoint" if null else "txin_hist_real_outpoint")
            if snap["bytes"] != eb.hex():
                ctx.viol("input object after a %s step serialises to bytes other than its current field values" % what, {"got": snap["bytes"][:300], "exp": eb.hex()[:300]})
                return
            if snap["coinbase"] != null or snap["clone_coinbase"] != null:
                ctx.viol("input object's coinbase flag disagrees with what a decoder reads from its own serialisation (%s outpoint, after %s)" % ("null" if null else "real", what), {"bytes": snap["bytes"][:200], "flag": snap["coinbase"]})
            if snap["reparse_coinbase"].get("ok") != null:
                ctx.note("txin_hist: reparse of the input's own bytes fails or reports another coinbase flag")
            exp_tx = wire.tx_encode({"version": 1, "ins": [{"txid_wire": bytes.fromhex(m["txid"])[::-1], "vout": m["vout"], "script": bytes.fromhex(m["script"]), "seq": m["seq"]}], "outs": [], "locktime": 0}).hex()
            if snap["tx_bytes"].get("ok") != exp_tx:
                ctx.viol("a transaction to which this input object was added (add_input) does not serialise the input's current field values (%s outpoint, after %s)" % ("null" if null else "real", what), {"got": str(snap["tx_bytes"])[:300], "exp": exp_tx[:300]})
            if snap["tx_coinbase"] != null or snap["tx_coinbase_impl"] != null:
                ctx.viol("a transaction holding only this input reports a coinbase flag that disagrees with its serialisation (%s outpoint, after %s)" % ("null" if null else "real", what), {"bytes": snap["bytes"][:200]})
            if (snap["txid_be"], snap["vout"], snap["seq"], snap["script"]) != (m["txid"], m["vout"], m["seq"], m["script"]):
                ctx.viol("input accessors after a %s step differ from the values set" % what, {"got": str({q: snap[q] for q in ("txid_be", "vout", "seq", "script")})[:300]})
    elif k == "build_history":
        ctx.hit("build_history")
        ctx.nontrivial()
        first = wire.tx_decode(bytes.fromhex(case["steps"][0]["model"]))
        r = ctx.call({"op": "history", "version": 1, "locktime": 0, "steps": [{"op": "set_version", "v": 1, "adopt": False}] + [{q: v for q, v in s_.items() if q != "model"} for s_ in case["steps"]]})
        if "ok" not in r:
            ctx.ev()
            ctx.viol("construction history could not be executed", {"resp": str(r)[:300]})
            return
        for s_, rec in zip(case["steps"], r["ok"]["steps"][1:]):
            ctx.ev()
            model = bytes.fromhex(s_["model"])
            # version/locktime of the empty start object are set by the first setter steps; compare from the first step that defines both
            if rec["id_now"] != wire.txid(bytes.fromhex(rec["bytes"])).hex():
                ctx.viol("after a %s step the id accessor is not the reversed double-SHA256 of the current serialisation" % s_["op"], {"id": rec["id_now"], "bytes": rec["bytes"][:200]})
            if rec["size_now"] != len(rec["bytes"]) // 2:
                ctx.viol("after a %s step the size accessor differs from the length of the current serialisation" % s_["op"], {})
            if rec["bytes"][8:-8] != model.hex()[8:-8]:
                ctx.viol("construction history: inputs/outputs of the serialisation differ from the model after a %s step" % s_["op"], {"got": rec["bytes"][:300], "model": model.hex()[:300]})
    elif k == "varint":
        n = case["n"]
        ctx.hit("varint")
        if n > 252:
            ctx.nontrivial()
        r = ctx.call({"op": "varint", "n": n})
        ctx.ev()
        if "ok" not in r:
            ctx.viol("varint helper failed", {"n": n})
            return
        o = r["ok"]
        exp = wire.cs_enc(n).hex()
        if o["write"] != exp or o["write_cursor"] != exp:
            ctx.viol("write_varint is not the canonical compact-size encoding", {"n": n, "got": o["write"], "exp": exp})
        if o["read_vec"] != n or o["read_cursor"] != n:
            ctx.viol("read_varint(write_varint(n)) != n", {"n": n})
        if o["read_get_bytes"] != n:
            ctx.viol("read_varint(get_varint_bytes(n)) != n", {"n": n, "bytes": o["get_bytes"]})
        if n <= 252 and o["get_bytes"] != exp:
            ctx.viol("get_varint_bytes(n<=252) is not one byte", {"n": n})
        if o["get_bytes"] != exp:
            ctx.note("get_varint_bytes_noncanonical_but_decodable")
    else:
        raise ValueError(k)
