"""C03 — FORKID signature-hash preimage equals the replay-protected sighash specification."""
from ..ref import ec, sighash
from . import sighash_common as sc

ID = "C03"
RULE = (
    "cases: (transaction, input index, subscript, value, flag) with all six FORKID flags, every input index of 1..8-input transactions (plus 253/300 inputs), "
    "non-palindromic sequences, full-range values, subscripts of length 0/1/252/253/65535/65536 and grammar scripts; library preimage compared byte-for-byte "
    "with the reference BIP143/BCH serialiser; signatures parsed with a strict DER parser and verified by the reference ECDSA verifier against sha256d(reference preimage). "
    "non-trivial = every distinct case (each carries a real transaction with >=1 input)"
)
ASSUMPTIONS = ["reference serialiser vf/ref/sighash.py (self-tested against the BIP143 example digest)", "reference secp256k1/ECDSA vf/ref/ec.py (self-tested against published vectors)"]
NSHARDS = {"quick": 32, "thorough": 64}
BUDGET_S = {"quick": 200, "thorough": 1800}
MIN_HITS = {
    'quick': {"flag_41": 487, "flag_42": 480, "flag_43": 476, "flag_c1": 462, "flag_c2": 462, "flag_c3": 471, "idx>=1": 1427, "nonpalindromic_seq": 2755, "sign": 163, "subscript>=65536": 3, "single_without_output": 296},
    'thorough': {"flag_41": 688236, "flag_43": 688126, "flag_c3": 688068, "idx>=1": 2125084, "nonpalindromic_seq": 4071738, "sign": 96003, "subscript>=65536": 3},
}


def selftest():
    sighash.selftest()
    ec.selftest()


def cases(ctx):
    t = ctx.tier == "thorough"
    yield from sc.gen_cases(ctx, sighash.FORKID_FLAGS, 30000 if t else 40, 2500 if t else 10)


def judge(ctx, case):
    sc.judge(ctx, case, True)
