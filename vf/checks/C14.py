"""C14 — the interpreter runs non-signature opcodes exactly per Bitcoin SV script semantics."""
import itertools

from .. import gen
from ..ref import interp, wire

ID = "C14"
RULE = (
    "cases: programs = pushes that build the initial stack || opcode under test, single-stepped; bounded-exhaustive: every implemented opcode x every operand tuple of depth 0..arity+1 over a "
    "15-value alphabet (empty, 00, 80, 01, 81, 7f, ff, 8000, ff7f, ffff, 0100, 0000008000, 9-byte positive, 4-byte negative, 80-byte blob) for arity<=2, a 6-value alphabet for arity 3-4, "
    "marker values for the permutation opcodes; dedicated operand grids for PICK/ROLL/SPLIT/NUM2BIN/LSHIFT/RSHIFT; IF/NOTIF x every predicate value x with/without ELSE x nesting; "
    "alt-stack programs; random programs of 5-60 tokens steered by the reference to run deep. Every step's (main stack, alt stack) and the success/failure outcome are compared with the "
    "reference interpreter. non-trivial = distinct program whose reference execution performs >=1 step"
)
ASSUMPTIONS = [
    "reference interpreter vf/ref/interp.py = my reading of Bitcoin SV post-Genesis consensus semantics (DESIGN.md appendix A), self-tested on examples from the opcode specifications",
    "excluded (era/policy dependent): OP_2MUL/OP_2DIV, OP_VER*, RESERVED*, CLTV/CSV, multiple ELSE, unbalanced ELSE/ENDIF, template pseudo-opcodes, size limits; signature opcodes belong to C15",
    "a library panic where the reference prescribes failure is left to C16 (outcome = failure in both)",
]
NSHARDS = {"quick": 64, "thorough": 128}
BUDGET_S = {"quick": 240, "thorough": 2400}
MIN_HITS = {
    'quick': {"program": 149629, "exh": 148287, "cond": 230, "random": 960, "ref_ok": 126370, "ref_fail": 22709, "op_148": 4302, "op_153": 433, "op_128": 514, "op_113": 44, "op_100": 460},
    'thorough': {"program": 635442, "exh": 174001, "cond": 276, "random": 460800, "ref_ok": 432046, "ref_fail": 203287, "op_148": 44818, "op_153": 27109, "op_128": 20564, "op_113": 22517, "op_100": 152315},
}

V15 = [b"", b"\x00", b"\x80", b"\x01", b"\x81", b"\x7f", b"\xff", b"\x80\x00", b"\xff\x7f", b"\xff\xff", b"\x01\x00", b"\x00\x00\x00\x80\x00", bytes(range(1, 9)) + b"\x10", b"\x04\x03\x02\x81", bytes((i * 7 + 1) & 0xFF for i in range(80))]
V15 = V15 + [b"\xff\xff\xff\x7f", b"\x00\x00\x00\x80\x80", b"\xff\xff\xff\xff\xff\xff\xff\x7f", b"\x00\x00\x00\x00\x00\x00\x00\x80\x80", b"\x00\x00\x00\x00\x00\x00\x00\x00\x01"]
V6 = [b"", b"\x01", b"\x81", b"\x80", b"\x02\x01", b"\x00\x00\x00\x80\x00"]
MARK = [bytes([0xA0 + i]) for i in range(8)]

ARITY = {}
for c in (0, 79, 116) + tuple(range(81, 97)) + tuple(interp.NOPS):
    ARITY[c] = 0
for c in (105, 107, 115, 117, 118, 129, 130, 131, 139, 140, 143, 144, 145, 146, 166, 167, 168, 169, 170):
    ARITY[c] = 1
for c in (109, 110, 119, 120, 124, 125, 126, 132, 133, 134, 135, 136, 147, 148, 149, 150, 151, 154, 155, 156, 157, 158, 159, 160, 161, 162, 163, 164):
    ARITY[c] = 2
for c in (111, 123, 165):
    ARITY[c] = 3
for c in (112, 114):
    ARITY[c] = 4
SPECIAL = {108, 113, 121, 122, 127, 128, 152, 153}


def selftest():
    interp.selftest()


def prog(stack, body, alt=()):
    toks = []
    for v in alt:
        toks += [interp.push_of(v), ("op", 107)]
    toks += [interp.push_of(v) for v in stack]
    return toks + [("op", c) if isinstance(c, int) else c for c in body]


def case_of(toks, tag):
    return {"k": "prog", "hex": wire.detok(toks).hex(), "tag": tag}


def all_exhaustive():
    """generator of (tag, tokens) for the bounded-exhaustive part"""
    for c, ar in sorted(ARITY.items()):
        alpha = V15 if ar <= 2 else V6
        for d in range(0, ar + 2):
            for tup in itertools.product(alpha, repeat=d):
                yield "exh", prog(tup, [c])
    # permutation opcodes with distinct markers at every depth 0..7
    for c in (109, 110, 111, 112, 113, 114, 119, 120, 123, 124, 125, 118, 117):
        for d in range(0, 8):
            yield "exh", prog(MARK[:d], [c])
    # FROMALTSTACK with alt depth 0..2, TOALTSTACK
    for d in range(3):
        for a in range(3):
            yield "exh", prog(MARK[:d], [108], alt=V6[:a])
            yield "exh", prog(MARK[:d], [107, 108, 108], alt=V6[:a])
    BIGN = [b"\x00\x00\x00\x00\x01", b"\x01\x00\x00\x00\x01", b"\x02\x00\x00\x00\x01", b"\x00\x00\x00\x00\x81", b"\xff\xff\xff\xff", b"\xff\xff\xff\x7f", b"\x00\x00\x00\x80\x80", b"\x01\x00\x00\x80\x80",
            b"\x00\x00\x00\x00\x00\x00\x00\x80\x00", b"\x00\x00\x00\x00\x00\x00\x00\x00\x01", b"\x01\x00\x00\x00\x00\x00\x00\x00\x01", b"\xfe\xff\xff\xff\x00"]
    idx = [b"", b"\x00", b"\x01", b"\x02", b"\x03", b"\x04", b"\x81", b"\x80", b"\x7f", b"\x01\x00", b"\x00\x00\x00\x80\x00", b"\x01\x00\x00\x00\x00\x00"] + BIGN
    for c in (121, 122):
        for d in range(0, 5):
            for n in idx:
                yield "exh", prog(MARK[:d] + [n], [c])
        yield "exh", prog([], [c])
    xs = [b"", b"\x01", b"\x01\x02\x03", V15[-1]]
    for x in xs:
        for n in [b"", b"\x00", b"\x01", b"\x02", b"\x03", b"\x04", b"\x81", b"\x50", b"\x51", b"\x01\x00", b"\x80", b"\x03\x00\x00\x00\x00"] + BIGN:
            yield "exh", prog([MARK[0], x, n], [127])
            yield "exh", prog([x, n], [127])
    yield "exh", prog([b"\x01"], [127])
    for a in V15:
        for size in [b"", b"\x00", b"\x01", b"\x02", b"\x04", b"\x05", b"\x08", b"\x09", b"\x0a", b"\x81", b"\x50", b"\x51", b"\xd0\x07", b"\x02\x00", b"\x00\x00\x00\x00\x81", b"\xff\xff\xff\xff", b"\x00\x00\x00\x80\x80"]:
            yield "exh", prog([MARK[0], a, size], [128])
    for x in V15:
        for n in [b"", b"\x00", b"\x01", b"\x07", b"\x08", b"\x09", b"\x0f", b"\x10", b"\x81", b"\x40", b"\xe8\x03", b"\x01\x00", b"\x80", b"\x00\x00\x00\x00\x81", b"\xff\xff\xff\xff", b"\x00\x00\x00\x80\x80"]:
            for c in (152, 153):
                yield "exh", prog([MARK[0], x, n], [c])
    for c in (152, 153, 128, 127):
        yield "exh", prog([], [c])
        yield "exh", prog([b"\x01"], [c])
    # unary operators over EVERY byte string of length 0..5 (0..4 for the numeric ones) over {00,01,7f,80,81,ff}: all shapes of
    # non-minimal encodings (padding bytes, separate sign byte, negative zero, top bit set below the padding)
    A6B = [0x00, 0x01, 0x7F, 0x80, 0x81, 0xFF]
    for L in range(0, 6):
        for tup in itertools.product(A6B, repeat=L):
            v = bytes(tup)
            yield "exh", prog([v], [129])  # BIN2NUM
            if L <= 4:
                for c in (139, 140, 143, 144, 145, 146, 130):  # 1ADD 1SUB NEGATE ABS NOT 0NOTEQUAL SIZE
                    yield "exh", prog([v], [c])
            if L <= 3:
                yield "exh", prog([v, b"\x04"], [128, 129])  # NUM2BIN(4) then BIN2NUM
                yield "exh", prog([b"\x01", v], [147])  # ADD with a non-minimal operand
    # index / position / size / shift-count operands at every power of two up to 2^72 and its neighbours, both signs, minimal and with one
    # padding byte: an operand that is out of range fails - it is never folded, masked or truncated into a small one
    for e_ in range(0, 73):
        for base_ in (2**e_ - 1, 2**e_, 2**e_ + 1):
            for sg in (1, -1):
                nv = interp.enc(sg * base_)
                for nb in (nv, (nv[:-1] + bytes([nv[-1] & 0x7F, 0x80 if sg < 0 else 0x00])) if nv else b"\x00"):
                    if e_ < 4 and nb == nv:
                        continue  # small minimal operands are covered by the grids above
                    yield "exh", prog([MARK[0], MARK[1], nb], [121])  # PICK
                    yield "exh", prog([MARK[0], MARK[1], nb], [122])  # ROLL
                    yield "exh", prog([MARK[0], b"abcdef", nb], [127])  # SPLIT
                    if e_ > 10:
                        yield "exh", prog([MARK[0], b"\x05", nb], [128])  # NUM2BIN
                        yield "exh", prog([MARK[0], b"\x05\x06", nb], [152])  # LSHIFT
                        yield "exh", prog([MARK[0], b"\x05\x06", nb], [153])  # RSHIFT
    # truthiness of LONG elements (64..81 bytes): all zero, negative zero, and exactly one non-zero byte at every position
    for L in (64, 65, 66, 70, 72, 73, 80, 81):
        shapes = [bytes(L), bytes(L - 1) + b"\x80"]
        for pos_ in range(L):
            v_ = bytearray(L)
            v_[pos_] = 0x01 if pos_ < L - 1 else 0x81
            shapes.append(bytes(v_))
            if pos_ == L - 2:
                v2 = bytearray(L)
                v2[pos_] = 0x40
                v2[L - 1] = 0x80
                shapes.append(bytes(v2))
        for v_ in shapes:
            yield "exh", prog([v_], [99, 81, 103, 82, 104])
            yield "exh", prog([b"\x01", v_], [154])  # BOOLAND
            yield "exh", prog([v_], [105])  # VERIFY
    # conditionals: predicate x IF/NOTIF x else/no else, nested, empty branches
    for p in V15 + [b"\x00\x00", b"\x00\x80", b"\x00\x00\x00\x00\x00", b"\x01\x00\x00\x00\x00"]:
        for op in (99, 100):
            yield "cond", prog([p], [op, 87, 104, 89])
            yield "cond", prog([p], [op, 87, 103, 88, 104, 89])
            yield "cond", prog([p], [op, 104])
            yield "cond", prog([p], [op, 103, 104])
            yield "cond", prog([p], [op, 103, 88, 104])
            for q in (b"", b"\x01"):
                yield "cond", prog([q, p], [op, 99, 87, 103, 88, 104, 103, 100, 90, 103, 91, 104, 104, 92])
                yield "cond", prog([p], [op, interp.push_of(q), 99, 87, 104, 103, 86, 104])
    for op in (99, 100):
        yield "cond", prog([], [op, 87, 104])
    # VERIFY / RETURN placement
    for p in V6:
        yield "cond", prog([p], [105, 87])
        yield "cond", prog([p], [106, 87])
        yield "cond", prog([b"\x01", p], [99, 106, 87, 104, 88])
        yield "cond", prog([p], [99, 87, 103, 106, 104, 88])
    yield "cond", prog([], [106])
    yield "cond", prog([b"\x05"], [118, 106, 117, 117, 117])


def gen_random(r, n_tokens):
    """random program steered by the reference: mostly keep tokens that keep the reference running"""
    ops = sorted(interp.IMPLEMENTED - {99, 100, 103, 104})
    toks = []
    depth = 0
    tries = 0
    while len(toks) < n_tokens and tries < n_tokens * 6:
        tries += 1
        x = r.random()
        if x < 0.25:
            cand = [interp.push_of(r.choice(V15) if r.random() < 0.7 else gen.rbytes(r, r.choice([1, 2, 4, 5, 20])))]
        elif x < 0.33 and depth < 3:
            body = [("op", r.choice(ops)) for _ in range(r.randrange(0, 3))]
            cand = [("op", r.choice([99, 100]))] + body + ([("op", 103)] + [("op", r.choice(ops)) for _ in range(r.randrange(0, 3))] if r.random() < 0.5 else []) + [("op", 104)]
        else:
            cand = [("op", r.choice(ops))]
        trial = toks + cand
        try:
            res = interp.run(trial)
        except interp.OutOfScope:
            continue
        if res["ok"] and not res["returned"]:
            toks = trial
        elif r.random() < 0.12:
            toks = trial
            break
    return toks


def cases(ctx):
    r = ctx.rnd
    S, N = ctx.shard, ctx.nshards
    t = ctx.tier == "thorough"
    k = 0
    for tag, toks in all_exhaustive():
        k += 1
        if k % N == S:
            yield case_of(toks, tag)
    if S == 0:
        ctx.exhaustive.append("every implemented opcode x every operand tuple of depth 0..arity+1 over the 15-value alphabet (arity<=2) / 6-value alphabet (arity 3-4); marker stacks of depth 0..7 for the permutation opcodes; operand grids for PICK/ROLL/SPLIT/NUM2BIN/LSHIFT/RSHIFT; IF/NOTIF x 19 predicate values x else/no-else x nesting")
    for _ in range(6000 if t else 30):
        toks = gen_random(r, r.choice([5, 8, 12, 20, 35, 60]))
        if toks:
            yield case_of(toks, "random")
    # programs handed to a transaction input as flat element lists through the construction API
    for _ in range(3000 if t else 40):
        toks = gen_random(r, r.choice([5, 8, 12, 20]))
        if toks:
            c_ = case_of(toks, "random")
            yield {"k": "apiprog", "hex": c_["hex"], "cut": r.randrange(0, 64), "tag": "api"}
    if S % 8 == 3:
        for ci, (tag_, toks) in enumerate(x_ for x_ in all_exhaustive() if x_[0] == "cond"):
            if ci % 3 == (S // 8) % 3:
                yield {"k": "apiprog", "hex": case_of(toks, tag_)["hex"], "cut": r.randrange(0, 64), "tag": "api"}
    # long programs (hundreds to thousands of executed opcodes)
    if S % 8 == 0:
        for n in (400, 501, 600, 1000, 2500):
            yield case_of([("op", 81)] + [("op", 118), ("op", 117)] * n, "long")
            yield case_of([("op", 97)] * (2 * n) + [("op", 82)], "long")
            yield case_of([("op", 0)] + [("op", 139)] * n, "long")
            yield case_of([("op", 81)] + [("op", 99), ("op", 81), ("op", 104)] * (n // 2), "long")
    # more than 1000 (and 10000) items on the stack / split between stack and alt stack: no item-count limit after Genesis
    if S % 8 == 2:
        for n in (999, 1000, 1001, 1500):
            yield case_of([("op", 81)] * n + [("op", 116)], "deep_stack")
            yield case_of([("op", 81), ("op", 107)] * (n // 2 + 1) + [("op", 82)] * (n // 2 + 1) + [("op", 116), ("op", 108)], "deep_stack")
    # elements whose SIZE falls on every script-number length class boundary (built by doubling; compared on the final stack only)
    if S % 8 == 1:
        for L in (127, 128, 255, 256, 32767, 32768, 65535, 65536, 8388607, 8388608):
            yield {"k": "bigprog", "len": L, "tag": "bigelem"}


def in_scope(raw):
    """programs the reference claims: parseable, only implemented opcodes, balanced conditionals with at most one ELSE each"""
    try:
        toks = wire.tokenize(raw)
    except wire.ScriptTrunc:
        return False
    stack = []
    for t_ in toks:
        if t_[0] != "op":
            continue
        c = t_[1]
        if c not in interp.IMPLEMENTED:
            return False
        if c in (99, 100):
            stack.append(0)
        elif c == 103:
            if not stack or stack[-1]:
                return False
            stack[-1] = 1
        elif c == 104:
            if not stack:
                return False
            stack.pop()
    return not stack


def extra_stages(tier, seed, res):
    """thorough only: coverage-guided programs from the libFuzzer finder (interpreter target), judged by the reference interpreter when in scope"""
    if tier != "thorough":
        return []
    from . import C09

    seeds = [bytes.fromhex(x) for x in ("515293", "6351675268", "0102030405767c7e", "5152536b6c7b", "02ffff0182", "51527f", "0301020352805181")]
    return C09.fuzz_stage(__name__, tier, seed, "interp", 150, lambda data, cls: ([{"k": "prog", "hex": data.hex(), "tag": "random"}] if in_scope(data) and len(data) <= 300 else []), seeds=seeds, max_len=300)


def fmt(st):
    return [x.hex() for x in st]


def bigprog_tokens(L):
    """push one byte, double it until >= L, cut to exactly L, then SIZE NIP: the final stack is the script number L"""
    toks = [("push", b"\xa5")]
    n = 1
    while n < L:
        toks += [("op", 118), ("op", 126)]
        n *= 2
    if n != L:
        toks += [interp.push_of(interp.enc(L)), ("op", 127), ("op", 117)]
    return toks + [("op", 130), ("op", 119)]


def judge(ctx, case):
    if case.get("k") == "bigprog":
        toks = bigprog_tokens(case["len"])
        ctx.hit("program")
        ctx.hit("bigelem")
        ctx.nontrivial()
        ref = interp.run(toks, max_elem=1 << 25)
        r = ctx.call({"op": "interp", "script": wire.detok(toks).hex(), "max_steps": len(toks) + 2, "mode": "step", "compact": True, "guard": 4 << 30}, watchdog=600)
        ctx.ev()
        if "ok" not in r or "step" not in r["ok"]:
            ctx.note("big-element probe hit a harness limit: no verdict")
            return
        s = r["ok"]["step"]
        want = [x.hex() for x in ref["trace"][-1][0]]
        if s["end"] != "none" or s["last_ok"]["stack"] != want:
            ctx.viol("opcode=OP_SIZE kind=wrong_result (element of %s bytes)" % ("2^23 or more" if case["len"] >= 1 << 23 else "less than 2^23"), {"len": case["len"], "lib": s["last_ok"], "end": s["end"], "detail": s["detail"], "ref": want})
        return
    if case.get("k") == "apiprog":
        # the same program split into an unlocking and a locking part and handed to a transaction input as FLAT element lists through
        # the construction API; what runs is the input's script (its serialisation), so conditionals take effect as usual
        raw = bytes.fromhex(case["hex"])
        toks = wire.tokenize(raw)
        ctx.hit("api_built_transaction_program")
        try:
            ref = interp.run(toks)
        except interp.OutOfScope:
            return
        if not ref["trace"]:
            return
        ctx.nontrivial()

        def bit(t_):
            if t_[0] == "op":
                return {"op": t_[1]}
            if t_[0] == "push":
                return {"push": t_[1].hex()}
            return {"pd": t_[1], "data": t_[2].hex()}

        cut = case["cut"] % (len(toks) + 1)
        dummy = wire.tx_encode({"version": 1, "ins": [{"txid_wire": b"\x33" * 32, "vout": 0, "script": b"", "seq": 0}], "outs": [], "locktime": 0}).hex()
        r = ctx.call({"op": "interp", "tx": dummy, "idx": 0, "ext": [{"locking": "51", "satoshis": 1}], "api_bits": {"unlock": [bit(t_) for t_ in toks[:cut]], "lock": [bit(t_) for t_ in toks[cut:]]}, "max_steps": len(toks) + 2, "mode": "run"})
        ctx.ev()
        run = r.get("ok", {}).get("run") if isinstance(r.get("ok"), dict) else None
        if run is None:
            if "err" in r:
                ctx.note("api-built program: interpreter construction refused")
            else:
                ctx.viol("interpreter could not be driven on an API-built transaction input", {"resp": str(r)[:300]})
            return
        want_ok = ref["ok"]
        want = [x.hex() for x in ref["trace"][-1][0]]
        if (run["end"] == "ok") != want_ok:
            ctx.viol("API-built transaction input: outcome differs from the script semantics of its serialisation (%s expected)" % ("success" if want_ok else "failure"), {"hex": case["hex"][:200], "run": str(run)[:300]})
        elif want_ok and run["post"]["stack"] != want:
            ctx.viol("API-built transaction input: final stack differs from the script semantics of its serialisation", {"hex": case["hex"][:200], "lib": run["post"]["stack"][:8], "ref": want[:8]})
        return
    raw = bytes.fromhex(case["hex"])
    toks = wire.tokenize(raw)
    ctx.hit("program")
    ctx.hit(case["tag"])
    try:
        ref = interp.run(toks)
    except interp.OutOfScope:
        ctx.note("program leaves the claimed semantics (size limits): skipped")
        return
    if ref["trace"]:
        ctx.nontrivial()
    ctx.hit("ref_ok" if ref["ok"] else "ref_fail")
    rq = {"op": "interp", "script": case["hex"], "max_steps": len(toks) + 2, "trace": True, "mode": "step"}
    if case.get("tag") == "deep_stack":
        rq["guard"] = 4 << 30  # the per-step trace of a 3000-item stack is quadratic in size
    r = ctx.call(rq, watchdog=600 if case.get("tag") == "deep_stack" else None)
    ctx.ev()
    if "ok" not in r or "step" not in r["ok"]:
        ctx.viol("interpreter could not be driven (%s)" % [q for q in ("err", "panic", "death", "make_panic") if q in r or q in r.get("ok", {})][:1], {"hex": case["hex"][:200], "resp": str(r)[:300]})
        return
    s = r["ok"]["step"]
    lt = s["trace"]
    rt = ref["trace"]
    for tk in set(t_[1] for t_ in toks if t_[0] == "op"):
        ctx.hit("op_%d" % tk)
    name = lambda t_: wire.OPNAMES.get(t_[1], str(t_[1])) if t_[0] == "op" else "push"
    # walk both traces
    n = min(len(lt), len(rt))
    for i in range(n):
        ctx.ev()
        ls, la = lt[i]["stack"], lt[i]["alt"]
        rs, ra, tok = rt[i]
        if ls != fmt(rs) or la != fmt(ra):
            prev = rt[i - 1][2] if i > 0 else None
            if prev is not None and prev[0] == "op" and prev[1] in (99, 100) and tok[0] == "op" and tok[1] in range(81, 97):
                ctx.viol("opcode=%s kind=wrong_branch_taken" % name(prev), {"hex": case["hex"][:200], "step": i, "lib": lt[i], "ref": {"stack": fmt(rs), "alt": fmt(ra)}})
            else:
                which = "main stack" if ls != fmt(rs) else "alt stack"
                ctx.viol("opcode=%s kind=wrong_result (%s)" % (name(tok), which), {"hex": case["hex"][:200], "step": i, "before": {"stack": fmt(rt[i - 1][0])} if i else {"stack": []}, "lib": lt[i], "ref": {"stack": fmt(rs), "alt": fmt(ra)}})
            return
    if len(lt) > len(rt):
        # the library kept going where the reference stopped
        if ref["ok"] and ref["returned"]:
            ctx.viol("opcode=OP_RETURN kind=execution_continues_after_return", {"hex": case["hex"][:200]})
        elif not ref["ok"]:
            ctx.viol("opcode=%s kind=missing_failure" % name(ref["fail_token"]), {"hex": case["hex"][:200], "step": len(rt), "before": {"stack": fmt(rt[-1][0])} if rt else {"stack": []}, "lib_after": lt[len(rt)]})
        else:
            ctx.viol("library executes more steps than the reference", {"hex": case["hex"][:200]})
        return
    if len(lt) < len(rt):
        tok = rt[len(lt)][2]
        if s["end"] == "panic":
            ctx.viol("opcode=%s kind=unexpected_failure (panic)" % name(tok), {"hex": case["hex"][:200], "detail": s["detail"]})
        else:
            ctx.viol("opcode=%s kind=unexpected_failure" % name(tok), {"hex": case["hex"][:200], "step": len(lt), "detail": s["detail"], "before": {"stack": fmt(rt[len(lt) - 1][0])} if lt else {"stack": []}})
        return
    # same number of successful steps
    ctx.ev()
    if ref["ok"]:
        if s["end"] in ("err", "panic"):
            # can only be a structural step the reference does not count
            ctx.viol("outcome=failure where the reference succeeds (after the last common step)", {"hex": case["hex"][:200], "detail": s["detail"]})
    else:
        if s["end"] == "none":
            ctx.viol("opcode=%s kind=missing_failure" % name(ref["fail_token"]), {"hex": case["hex"][:200], "before": {"stack": fmt(rt[-1][0])} if rt else {"stack": []}})
        elif s["end"] == "panic":
            ctx.note("panic where the reference prescribes failure (C16)")
