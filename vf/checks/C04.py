"""C04 — sighash depends only on the transaction's current contents, never on call history."""
import itertools

from .. import gen
from ..ref import ec, wire

ID = "C04"
RULE = (
    "cases: histories over the mutation API (add/prepend/insert/set input and output, set_version, set_nlocktime, clone) interleaved with sighash/sign/hash_inputs calls of "
    "every cache-filling flag class, executed on ONE live Transaction; bounded-exhaustive over a 25-symbol alphabet (incl. replacements that change exactly one field: sequence, vout, unlocking script, output value, output script) up to depth 3 (quick) / 4 (thorough) plus long random histories. "
    "After EVERY step three probing sighash calls run on a clone of the live object and on a fresh parse of its serialisation; every sighash/sign step is also "
    "repeated on a fresh parse. non-trivial = distinct history containing >=1 mutator after >=1 cache-filling call"
)
ASSUMPTIONS = ["the comparison is against the library's own computation on a freshly parsed copy (independent of C03's verdict)", "only valid indices are generated (out-of-range index = API misuse)"]
NSHARDS = {"quick": 32, "thorough": 64}
BUDGET_S = {"quick": 200, "thorough": 2400}
MIN_HITS = {
    'quick': {"history": 15791, "sighash_step": 11702, "probe": 286990, "mut_after_fill": 4227, "slots_nonempty": 16123, "op_set_input": 9659, "op_set_output": 5742, "long_history": 48},
    'thorough': {"history": 478308, "sighash_step": 1036683, "probe": 8997147, "mut_after_fill": 204552, "op_set_input": 837109, "op_set_output": 503130, "long_history": 5760},
}

ALPHABET = [
    "add_input", "prepend_input", "insert_input", "set_input", "add_output", "prepend_output", "insert_output", "set_output",
    "set_version", "set_nlocktime", "clone", "sh41", "sh42", "shc1", "sh43", "sh01",
    # replacements that change exactly ONE field of the existing element (a cache keyed on "did X change" must notice each of them)
    "set_input_seq", "set_input_vout", "set_input_script", "set_output_value", "set_output_script",
    # bulk appends and inserts exactly at the end position (separate code paths from add_* / insert-in-the-middle)
    "add_inputs2", "add_outputs2", "insert_input_end", "insert_output_end",
    # the public hashPrevouts accessor: fills the first cache slot without any sighash call
    "hi41",
    # Clone::clone_from: the live object is overwritten in place by another transaction (its caches must go with it)
    "clone_from",
    # every read accessor of the transaction, called between the sighash calls
    "accessors",
    # replacement that changes only the extended (non-wire) fields of an input: recorded satoshis + locking script
    "set_input_ext",
    # the input object is taken out of the transaction, edited through ITS OWN setters and put back (object-level caches travel with it)
    "edit_input_vout", "edit_input_seq",
]
FILLERS = {"sh41", "sh42", "shc1", "sh43", "hi41"}
PROBES = [
    {"op": "sighash", "flag": 0x41, "idx": 0, "script": "76a9", "value": 1234567},
    {"op": "sighash", "flag": 0xC1, "idx": 1, "script": "ac", "value": 0},
    {"op": "sighash", "flag": 0x42, "idx": 1, "script": "", "value": 2**64 - 1},
    {"op": "sighash", "flag": 0x01, "idx": 0, "script": "", "value": 5},
    {"op": "sighash", "flag": 0x83, "idx": 1, "script": "", "value": 0},
]


def tin(tag):
    h = wire.sha256(b"in%d" % tag)
    return {"txid": h.hex(), "vout": tag & 0xFFFF, "script": "51" if tag % 3 else "", "seq": int.from_bytes(h[:4], "big")}


def tout(tag):
    h = wire.sha256(b"out%d" % tag)
    return {"value": int.from_bytes(h[:8], "big") >> (tag % 40), "script": "76a914" + h[:20].hex() + "88ac" if tag % 2 else "6a"}


class Model:
    """python-side copy of the live transaction's inputs/outputs, so that one-field replacements can be generated"""

    def __init__(self, ins, outs):
        self.ins = [dict(i) for i in ins]
        self.outs = [dict(o) for o in outs]


def step_of(sym, pos, model, r=None):
    """literal step for alphabet symbol `sym` at history position `pos` given the current model; returns the step (or None) and updates the model"""
    t = pos * 31 + 7
    n_in, n_out = len(model.ins), len(model.outs)
    pick = (lambda n: (pos % n) if r is None else r.randrange(n))
    if sym == "add_inputs2":
        a, b = tin(t), tin(t + 1)
        model.ins += [a, b]
        return {"op": "add_inputs", "ins": [a, b]}
    if sym == "add_outputs2":
        a, b = tout(t), tout(t + 1)
        model.outs += [a, b]
        return {"op": "add_outputs", "outs": [a, b]}
    if sym == "insert_input_end":
        i = tin(t)
        model.ins.append(i)
        return {"op": "insert_input", "i": n_in, "in": i}
    if sym == "insert_output_end":
        o = tout(t)
        model.outs.append(o)
        return {"op": "insert_output", "i": n_out, "out": o}
    if sym in ("add_input", "prepend_input", "insert_input"):
        i = tin(t)
        if sym == "add_input":
            model.ins.append(i)
            return {"op": sym, "in": i}
        if sym == "prepend_input":
            model.ins.insert(0, i)
            return {"op": sym, "in": i}
        at = min(1, n_in) if r is None else r.randrange(n_in + 1)
        model.ins.insert(at, i)
        return {"op": sym, "i": at, "in": i}
    if sym == "set_input":
        if n_in == 0:
            return None
        at = pick(n_in)
        model.ins[at] = tin(t)
        return {"op": sym, "i": at, "in": model.ins[at]}
    if sym in ("set_input_seq", "set_input_vout", "set_input_script"):
        if n_in == 0:
            return None
        at = pick(n_in)
        i = dict(model.ins[at])
        if sym == "set_input_seq":
            i["seq"] = (i["seq"] + 0x01010101 + pos) & 0xFFFFFFFF
        elif sym == "set_input_vout":
            i["vout"] = (i["vout"] + 1 + pos) & 0xFFFFFFFF
        else:
            i["script"] = i["script"] + "51"
        model.ins[at] = i
        return {"op": "set_input", "i": at, "in": i}
    if sym in ("add_output", "prepend_output", "insert_output"):
        o = tout(t)
        if sym == "add_output":
            model.outs.append(o)
            return {"op": sym, "out": o}
        if sym == "prepend_output":
            model.outs.insert(0, o)
            return {"op": sym, "out": o}
        at = min(1, n_out) if r is None else r.randrange(n_out + 1)
        model.outs.insert(at, o)
        return {"op": sym, "i": at, "out": o}
    if sym == "set_output":
        if n_out == 0:
            return None
        at = pick(n_out)
        model.outs[at] = tout(t)
        return {"op": sym, "i": at, "out": model.outs[at]}
    if sym in ("set_output_value", "set_output_script"):
        if n_out == 0:
            return None
        at = pick(n_out)
        o = dict(model.outs[at])
        if sym == "set_output_value":
            o["value"] = (o["value"] + 1 + pos) & 0xFFFFFFFFFFFFFFFF
        else:
            o["script"] = o["script"] + "61"
        model.outs[at] = o
        return {"op": "set_output", "i": at, "out": o}
    if sym == "set_version":
        return {"op": sym, "v": 0x01020300 + pos, "adopt": bool(pos & 1)}
    if sym == "set_nlocktime":
        return {"op": sym, "v": 0x0A0B0C00 + pos, "adopt": bool(pos & 1)}
    if sym == "clone":
        return {"op": "clone"}
    if sym == "accessors":
        return {"op": "accessors"}
    if sym in ("edit_input_vout", "edit_input_seq"):
        if n_in == 0:
            return None
        at = pick(n_in)
        i = dict(model.ins[at])
        if sym == "edit_input_vout":
            i["vout"] = (i["vout"] + 7 + pos) & 0xFFFFFFFF
            st_ = {"op": "edit_input", "i": at, "field": "vout", "v": i["vout"]}
        else:
            i["seq"] = (i["seq"] + 0x00010001 + pos) & 0xFFFFFFFF
            st_ = {"op": "edit_input", "i": at, "field": "seq", "v": i["seq"]}
        model.ins[at] = i
        return st_
    if sym == "set_input_ext":
        if n_in == 0:
            return None
        at = pick(n_in)
        i = dict(model.ins[at])
        i["satoshis"] = 777000 + pos
        i["locking"] = "76a914" + "33" * 20 + "88ac"
        model.ins[at] = i
        return {"op": "set_input", "i": at, "in": i}
    if sym == "clone_from":
        # the source differs from the live object in inputs, outputs, sequences: one new input/output added to the current model
        model.ins.append(tin(t))
        model.outs.insert(0, tout(t))
        for i in model.ins:
            i["seq"] = (i["seq"] ^ 0x00010000) & 0xFFFFFFFF
        tx = {
            "version": 7 + pos,
            "ins": [{"txid_wire": bytes.fromhex(i["txid"])[::-1], "vout": i["vout"], "script": bytes.fromhex(i["script"]), "seq": i["seq"]} for i in model.ins],
            "outs": [{"value": o["value"], "script": bytes.fromhex(o["script"])} for o in model.outs],
            "locktime": 99 + pos,
        }
        return {"op": "clone_from", "tx": wire.tx_encode(tx).hex()}
    if sym.startswith("hi"):
        return {"op": "hash_inputs", "flag": int(sym[2:], 16)}
    if sym.startswith("sh") or sym.startswith("sg"):
        if n_in == 0:
            return None
        flag = int(sym[2:], 16)
        idx = pick(n_in)
        # SINGLE at an input index without a matching output is kept as a step: the library may refuse it, but it must refuse it on the
        # live object exactly when it refuses it on a fresh parse
        st = {"op": "sighash", "flag": flag, "idx": idx, "script": "76a914" + "11" * 20 + "88ac", "value": 1000 + pos}
        if sym.startswith("sg"):
            st["op"] = "sign"
            st["key"] = (0x1000 + pos).to_bytes(32, "big").hex()
            st["compressed"] = bool(pos & 1)
        return st
    raise ValueError(sym)


INIT_INS = [{"txid": tin(900)["txid"], "vout": 3, "script": "", "seq": 0xA1B2C3D4}, {"txid": tin(901)["txid"], "vout": 0, "script": "51", "seq": 0xFFFFFFFE}]
INIT_OUTS = [{"value": 5000, "script": "76a914" + "22" * 20 + "88ac"}, {"value": 0x0102030405060708, "script": "6a"}]


def init_tx():
    tx = {
        "version": 2,
        "ins": [{"txid_wire": bytes.fromhex(i["txid"])[::-1], "vout": i["vout"], "script": bytes.fromhex(i["script"]), "seq": i["seq"]} for i in INIT_INS],
        "outs": [{"value": o["value"], "script": bytes.fromhex(o["script"])} for o in INIT_OUTS],
        "locktime": 0x11223344,
    }
    return wire.tx_encode(tx).hex()


def build_history(symbols, r=None, empty=False):
    model = Model([], []) if empty else Model(INIT_INS, INIT_OUTS)
    steps = []
    for pos, s in enumerate(symbols):
        st = step_of(s, pos, model, r)
        if st is not None:
            steps.append(st)
            if st["op"] == "sign" and pos % 2 == 0:
                # a second signer right away: the very same arguments (hence the same preimage), ANOTHER key - and then the first key again
                steps.append(dict(st, key=(0x7000 + pos).to_bytes(32, "big").hex(), compressed=not st["compressed"]))
                steps.append(dict(st))
    return steps


def cases(ctx):
    r = ctx.rnd
    S, N = ctx.shard, ctx.nshards
    thorough = ctx.tier == "thorough"
    depth = 4 if thorough else 3
    init = init_tx()
    k = 0
    for d in range(1, depth + 1):
        for combo in itertools.product(range(len(ALPHABET)), repeat=d):
            k += 1
            if k % N != S:
                continue
            # the empty-cache prefix is uninteresting: require a filler somewhere before the last symbol for d >= 2, but keep all for d <= 2
            syms = [ALPHABET[i] for i in combo]
            yield {"k": "hist", "init": init, "steps": build_history(syms), "probes": PROBES, "tag": "exh%d" % d}
    if S == 0:
        ctx.exhaustive.append("all histories of length 1..%d over the %d-symbol alphabet %s from a 2-in/2-out transaction, 3 probes after every step" % (depth, len(ALPHABET), ALPHABET))
    # long random histories, including signing steps and batched adds
    n = 150 if thorough else 3
    syms_all = ALPHABET + ["sg41", "sg43", "sgc3", "sg01", "sh81", "sh02", "sh03", "shc2", "shc3"]
    for _ in range(n):
        L = r.choice([50, 100, 200, 400, 1000]) if thorough else r.choice([50, 120, 300])
        # bias towards the replace operations and cache fillers
        w = [3 if s.startswith(("set_input", "set_output")) else 2 if s in FILLERS else 1 for s in syms_all]
        syms = r.choices(syms_all, weights=w, k=L)
        yield {"k": "hist", "init": init, "steps": build_history(syms, r), "probes": PROBES if L <= 300 else PROBES[:1], "tag": "long"}
    # histories whose start object was parsed from a NON-canonical encoding (non-minimal compact-size for counts / script lengths):
    # its current serialisation is the canonical one, and that is what the fresh copy is parsed from
    def noncanon(n):
        return r.choice([b"\xfd" + n.to_bytes(2, "little"), b"\xfe" + n.to_bytes(4, "little"), b"\xff" + n.to_bytes(8, "little")])

    for _ in range(200 if thorough else 6):
        which = r.choice(["out_script_len", "in_script_len", "n_in", "n_out", "all"])
        b = bytearray((2).to_bytes(4, "little"))
        b += noncanon(len(INIT_INS)) if which in ("n_in", "all") else wire.cs_enc(len(INIT_INS))
        for i in INIT_INS:
            sc = bytes.fromhex(i["script"])
            b += bytes.fromhex(i["txid"])[::-1] + i["vout"].to_bytes(4, "little") + (noncanon(len(sc)) if which in ("in_script_len", "all") else wire.cs_enc(len(sc))) + sc + i["seq"].to_bytes(4, "little")
        b += noncanon(len(INIT_OUTS)) if which in ("n_out", "all") else wire.cs_enc(len(INIT_OUTS))
        for o in INIT_OUTS:
            sc = bytes.fromhex(o["script"])
            b += o["value"].to_bytes(8, "little") + (noncanon(len(sc)) if which in ("out_script_len", "all") else wire.cs_enc(len(sc))) + sc
        b += (0x11223344).to_bytes(4, "little")
        syms = [r.choice(["sh41", "shc1", "sh42", "sh43", "sg41", "hi41"])] + r.choices(syms_all, k=r.choice([0, 2, 5]))
        yield {"k": "hist", "init": bytes(b).hex(), "steps": build_history(syms, r), "probes": PROBES, "tag": "noncanonical_init"}
    # start objects decoded from a JSON / CBOR document that carries EXTRA members named after the object's internal cache state
    # (`hash_cache` with its three slots - names known from the hook): a decoder that lets a document preload the caches makes the
    # first sighash depend on something other than the transaction's contents
    for i in range(60 if thorough else 4):
        syms = [r.choice(["sh41", "shc1", "sh42", "sh43", "sg41", "hi41"])] + r.choices(syms_all, k=r.choice([0, 2, 5]))
        yield {"k": "hist", "init": init, "json_init": {"via": ["json", "cbor"][i % 2], "member": ["hash_cache", "hash_cache", "hashCache", "HashCache"][i % 4], "fill": r.choice(["all", "all", "inputs", "outputs", "sequence"])}, "steps": build_history(syms, r), "probes": PROBES, "tag": "document_with_cache_members"}
    # histories that start from an empty transaction built only through the API
    for _ in range(300 if thorough else 6):
        L = r.choice([6, 10, 20])
        # transactions that still have NO outputs while the cache is filled, then get outputs in bulk / one by one
        syms0 = ["add_input", r.choice(["sh41", "shc1", "sg41"]), r.choice(["add_outputs2", "add_output", "insert_output_end", "prepend_output"]), "sh41", "shc1"] + r.choices(syms_all, k=L // 2)
        yield {"k": "hist", "init": None, "steps": build_history(syms0, r, empty=True), "probes": PROBES, "tag": "from_empty"}
        syms = ["add_input", "add_output"] + r.choices(syms_all, k=L)
        yield {"k": "hist", "init": None, "steps": build_history(syms, r, empty=True), "probes": PROBES, "tag": "from_empty"}


def judge(ctx, case):
    req = {"op": "history", "steps": case["steps"], "probes": case["probes"]}
    if case.get("json_init"):
        import json

        ji = case["json_init"]
        ctx.hit("document_with_cache_members")
        d = ctx.call({"op": "docs", "tx": case["init"]})
        if "ok" not in d:
            ctx.note("library JSON of the start transaction unavailable")
            return
        doc = json.loads(d["ok"]["json"])
        slots = {"hash_inputs": "aa" * 32, "hash_sequence": "bb" * 32, "hash_outputs": "cc" * 32}
        if ji["fill"] != "all":
            slots = {q: v for q, v in slots.items() if ji["fill"] in q}
        if ji["member"] == "hashCache":
            slots = {"hashInputs": slots.get("hash_inputs"), "hashSequence": slots.get("hash_sequence"), "hashOutputs": slots.get("hash_outputs")}
        doc[ji["member"]] = slots
        req["init_json"] = json.dumps(doc)
        req["init_via"] = ji["via"]
    elif case["init"] is not None:
        req["init"] = case["init"]
    r = ctx.call(req, watchdog=300)
    ctx.hit("history")
    if case.get("tag") == "long":
        ctx.hit("long_history")
    if case.get("tag") == "noncanonical_init":
        ctx.hit("noncanonical_init")
    if "ok" not in r and case.get("json_init") and "drv_err" in r and "init parse" in str(r["drv_err"]):
        ctx.note("document with extra members refused by the decoder (nothing to compare)")
        return
    if "ok" not in r and case.get("tag") == "noncanonical_init" and "drv_err" in r and "init parse" in str(r["drv_err"]):
        ctx.note("non-canonical start encoding not accepted by the parser (nothing to compare)")
        return
    if "ok" not in r:
        ctx.ev()
        ctx.viol("history could not be executed (%s)" % [x for x in ("err", "panic", "death", "alloc_guard", "timeout", "drv_err") if x in r][0], {"resp": {x: r[x] for x in r if x in ("err", "panic", "death", "alloc_guard")}})
        return
    filled = False
    mut_after_fill = False
    prev_bytes = None
    for st, rec in zip(case["steps"], r["ok"]["steps"]):
        op = st["op"]
        # a sighash / sign / hash_inputs / accessor call only OBSERVES the transaction - whether it succeeds or is refused, the
        # serialisation of the live object stays what it was after the previous step
        if op in ("sighash", "sign", "sign_k", "hash_inputs", "accessors") and prev_bytes is not None and "bytes" in rec:
            ctx.ev()
            ctx.hit("observation_keeps_bytes")
            if rec["bytes"] != prev_bytes:
                ctx.viol("a %s call%s changes the serialisation of the live transaction" % ("sighash" if op in ("sighash", "sign", "sign_k") else op, " that is refused" if isinstance(rec.get("live"), dict) and "err" in rec["live"] else ""), {"before": prev_bytes[:300], "after": rec["bytes"][:300]})
        prev_bytes = rec.get("bytes", prev_bytes)
        ctx.hit("op_" + op)
        if op in ("sighash", "sign", "sign_k"):
            ctx.ev()
            ctx.hit("sighash_step")
            ctx.hit("stepflag_%02x" % st["flag"])
            if st["flag"] & 0x40:
                filled = True
            if rec["live"] != rec["fresh"]:
                kind = "preimage" if op == "sighash" else "signature"
                ctx.viol("%s on the live object differs from the same call on a freshly parsed copy (flag 0x%02x)" % (kind, st["flag"]), {"live": str(rec["live"])[:300], "fresh": str(rec["fresh"])[:300]})
        elif op == "hash_inputs":
            ctx.ev()
            filled = True
            t = wire.tx_decode(bytes.fromhex(rec["bytes"]))
            exp = wire.sha256d(b"".join(i["txid_wire"] + i["vout"].to_bytes(4, "little") for i in t["ins"])).hex()
            if rec["hash_inputs"] != exp:
                ctx.viol("Transaction::hash_inputs on the live object is not the double SHA-256 of the current outpoints", {"got": rec["hash_inputs"], "expected": exp})
        elif op != "clone" and filled:
            mut_after_fill = True
        slots = rec["slots"]
        pat = "".join("1" if s else "0" for s in slots)
        ctx.hit("slots_" + pat)
        if pat != "000":
            ctx.hit("slots_nonempty")
        for pi, p in enumerate(rec.get("probes", [])):
            if p is None:
                continue
            ctx.ev()
            ctx.hit("probe")
            if not p["eq"]:
                ctx.viol("after a %s step, probing sighash (flag 0x%02x) on a clone of the live transaction differs from a freshly parsed copy" % (op, case["probes"][pi]["flag"]), {"clone": str(p["clone"])[:300], "fresh": str(p["fresh"])[:300], "slots": slots, "truth": p["truth_slots"]})
            # hook diagnostics: a filled slot that differs from what a fresh computation caches (informational unless a probe also fails)
            if pi == 0 and case["probes"][0]["flag"] == 0x41:
                for si, (a, b) in enumerate(zip(slots, p["truth_slots"])):
                    if a is not None and b is not None and a != b:
                        ctx.note("hook: stale slot %d after %s" % (si, op))
    if mut_after_fill:
        ctx.hit("mut_after_fill")
        ctx.nontrivial()
