"""C08 — BIP32 derivation and xprv/xpub serialisation match the standard."""
from .. import gen
from ..ref import base58, bip32, ec

ID = "C08"
RULE = (
    "cases: seeds of 16..64 bytes and {1,15,65,128,1000} bytes; derivation chains mixing single-index steps and path strings in every syntax (m, /, ', h, H), indices on both sides of 2^31 "
    "{0,1,2^31-2,2^31-1,2^31,2^31+1,2^32-1}+random, depth <= 8 quick / up to 255 thorough; after EVERY step every field and the Base58Check string is compared with an independent BIP32; "
    "public derivation from the neutered parent vs neutered private child; hardened public derivation must be refused; string round-trip; single-character substitutions and every single-bit "
    "payload flip of valid xprv/xpub strings must be rejected. non-trivial = every distinct case"
)
ASSUMPTIONS = ["reference BIP32 in vf/ref/bip32.py, self-tested on BIP32 test vectors 1 and 2", "the empty path 'm' (refused by the library; pinned by its tests) carries no claim", "IL >= n / zero child keys (p ~ 2^-127) not generated"]
NSHARDS = {"quick": 32, "thorough": 64}
BUDGET_S = {"quick": 200, "thorough": 1800}
MIN_HITS = {
    'quick': {"chain": 534, "step_hardened": 371, "step_normal": 405, "step_path": 562, "pub_derive": 792, "pub_hardened_refused": 244, "corrupt": 6912, "odd_seed": 103},
    'thorough': {"chain": 160636, "step_hardened": 119146, "step_normal": 152756, "step_path": 181197, "pub_derive": 261349, "pub_hardened_refused": 81682, "corrupt": 3455078, "odd_seed": 38329, "depth255": 124},
}
IDX = [0, 1, 2, 2**31 - 2, 2**31 - 1, 2**31, 2**31 + 1, 2**32 - 1]


def selftest():
    bip32.selftest()
    base58.selftest()


def ridx(r):
    return r.choice(IDX) if r.random() < 0.5 else r.getrandbits(32)


def path_str(r, idxs):
    parts = []
    for i in idxs:
        if i >= 2**31:
            parts.append("%d%s" % (i - 2**31, r.choice(["'", "h", "H"])))
        else:
            parts.append(str(i))
    return r.choice(["m/", "M/", "m/"]) + "/".join(parts)


def cases(ctx):
    r = ctx.rnd
    t = ctx.tier == "thorough"
    for i in range(2500 if t else 16):
        sl = r.choice([16, 17, 24, 32, 33, 48, 63, 64]) if r.random() < 0.7 else r.choice([1, 15, 65, 128, 1000])
        seed = gen.rbytes(r, sl)
        steps = []
        depth = 0
        maxd = r.choice([1, 2, 4, 8])
        while depth < maxd:
            if r.random() < 0.4:
                n = r.randrange(1, min(4, maxd - depth) + 1)
                idxs = [ridx(r) for _ in range(n)]
                steps.append({"path": path_str(r, idxs), "idxs": idxs})
                depth += n
            else:
                steps.append({"derive": ridx(r)})
                depth += 1
            if r.random() < 0.15:
                steps.append({"reparse": True})
        yield {"k": "chain", "seed": seed.hex(), "steps": steps, "neuter_at": r.randrange(0, len(steps) + 1), "impl": r.random() < 0.35}
        if i % 3 == 0:
            # the same steps from another seed right afterwards, then from the first seed again (state keyed on the index / path only)
            yield {"k": "chain", "seed": gen.rbytes(r, 32).hex(), "steps": steps, "neuter_at": r.randrange(0, len(steps) + 1), "impl": False, "twin": True}
            yield {"k": "chain", "seed": seed.hex(), "steps": steps, "neuter_at": 0, "impl": False, "twin": True}
    # children whose private key / chain code has leading zero bytes (searched with the reference from the seed 00 01 .. 1f: about one
    # derivation in 65536), derived singly, by path, re-parsed and derived from further
    if ctx.shard % 4 == 1 or t:
        zseed = bytes(range(32)).hex()
        for zi in (86312, 2147590301, 2147518707):
            nxt = ridx(r)
            yield {"k": "chain", "seed": zseed, "steps": [{"derive": zi}, {"reparse": True}, {"derive": nxt}], "neuter_at": 1 if zi < 2**31 else 3, "impl": False, "leadzero": True}
            ps = "m/%d%s/%d%s" % (zi & 0x7FFFFFFF, "'" if zi >= 2**31 else "", nxt & 0x7FFFFFFF, "'" if nxt >= 2**31 else "")
            yield {"k": "chain", "seed": zseed, "steps": [{"path": ps, "idxs": [zi, nxt]}], "neuter_at": 5, "impl": True, "leadzero": True}
    # seeds that happen to be TEXT: only ASCII hex digits (even length, >= 32 bytes), only Base58 characters, printable ASCII
    if ctx.shard % 4 == 2 or t:
        for alphabet, ln in (("0123456789abcdef", 32), ("0123456789abcdef", 64), ("0123456789ABCDEF", 40), ("0123456789", 32), ("123456789ABCDEFGHJKLMNPQRSTUVWXYZabcdefghijkmnopqrstuvwxyz", 48), ("abcdefghijklmnopqrstuvwxyz ", 36)):
            tseed = "".join(r.choice(alphabet) for _ in range(ln)).encode()
            yield {"k": "chain", "seed": tseed.hex(), "steps": [{"derive": ridx(r)}], "neuter_at": 0, "impl": ln == 64, "text_seed": True}
    # zero-padded components (same index, longer text): 11 and more digits
    if ctx.shard % 4 == 3 or t:
        for pad in (11, 12, 20, 40):
            idxs = [ridx(r) % 2**31, 12 + 2**31, 7]
            ps = "m/%s/%s'/%s" % (str(idxs[0]).zfill(pad), "12".zfill(pad), "7".zfill(pad))
            yield {"k": "chain", "seed": gen.rbytes(r, 32).hex(), "steps": [{"path": ps, "idxs": idxs}], "neuter_at": 5, "impl": pad == 12, "zero_padded": True}
            idxs2 = [5, 9]
            yield {"k": "chain", "seed": gen.rbytes(r, 32).hex(), "steps": [{"path": "m/%s/%s" % ("5".zfill(pad), "9".zfill(pad)), "idxs": idxs2}], "neuter_at": 0, "impl": False, "zero_padded": True}
    # the longest well-formed path text: 255 components, every one a ten-digit hardened index (also through the *_impl twins)
    if ctx.shard % 8 == 0 or t:
        seed = gen.rbytes(r, 32)
        for suffix in ("'", "h"):
            idxs = [2**32 - 1] * 255
            yield {"k": "chain", "seed": seed.hex(), "steps": [{"path": "m" + "".join("/2147483647" + suffix for _ in idxs), "idxs": idxs}], "neuter_at": 300, "deep": True, "impl": suffix == "h", "maxlen": True}
        idxs = [2**31 - 1] * 255
        yield {"k": "chain", "seed": seed.hex(), "steps": [{"path": "m" + "".join("/2147483647" for _ in idxs), "idxs": idxs}], "neuter_at": 0, "deep": True, "maxlen": True}
    if t:
        for i in range(1):
            if ctx.shard % 8 == 0:
                seed = gen.rbytes(r, 32)
                steps = [{"derive": ridx(r)} for _ in range(255)]
                yield {"k": "chain", "seed": seed.hex(), "steps": steps, "neuter_at": 300, "deep": True}
                idxs = [r.getrandbits(32) for _ in range(255)]
                yield {"k": "chain", "seed": seed.hex(), "steps": [{"path": path_str(r, idxs), "idxs": idxs}], "neuter_at": 300, "deep": True}
    for i in range(40 if t else 2):
        yield {"k": "random", "which": "prv", "steps": [{"derive": ridx(r)}, {"reparse": True}, {"derive": ridx(r)}]}
        yield {"k": "random", "which": "pub", "steps": [{"derive": ridx(r) % 2**31}, {"reparse": True}]}
    # two different parents that share fingerprint (HASH160 prefix of the key: 24217*G and 50986*G both give d33f91d6), chain code,
    # depth and index, deriving the same child index back to back: parent 1, parent 2, parent 1 (state keyed on a projection of the parent)
    for i in range(30 if t else 2):
        yield {"k": "fpcoll", "chain": gen.rbytes(r, 32).hex(), "depth": r.choice([0, 1, 3]), "index": ridx(r), "fp": gen.rbytes(r, 4).hex(), "child": ridx(r) % 2**31 if i % 2 == 0 else ridx(r), "second": ridx(r) % 2**31}
    for i in range(60 if t else 3):
        kx = r.randrange(1, ec.N)
        yield {"k": "ctor", "key": "%064x" % kx, "chain": gen.rbytes(r, 32).hex(), "depth": r.choice([0, 1, 2, 5, 255]), "index": ridx(r), "fp": (None if r.random() < 0.6 else r.choice(["00000000", gen.rbytes(r, 4).hex()]))}
    for i in range(40 if t else 2):
        bad = r.choice([2**31, 2**31 + 1, 2**32 - 1, 2**32, 2**32 + 5, 2**32 + 2**31 - 1, 2**33, 2**63, 2**64, 2**64 + 7, 10**30])
        good = [ridx(r) % 2**31 for _ in range(r.randrange(0, 3))]
        comp = [str(g) for g in good] + [str(bad) + r.choice(["", "'", "h"])]
        r.shuffle(comp)
        yield {"k": "badpath", "seed": gen.rbytes(r, 32).hex(), "path": "m/" + "/".join(comp)}
    # components without any digit (a bare hardened marker), with a sign, a radix prefix, letters, blanks or non-ASCII digits are not
    # path components: the whole path must be refused (never read as some index)
    for i in range(60 if t else 3):
        badc = r.choice(["'", "h", "H", "''", "a", "-1", "0x1", "\uff11", " 1", "1 ", "1a", "'1", "h1", "1'h", "-0", "1.0", "1e3", "\u0661"])
        good = [str(ridx(r) % 2**31) + r.choice(["", "'", ""]) for _ in range(r.randrange(0, 3))]
        j = r.randrange(len(good) + 1)
        yield {"k": "badpath", "seed": gen.rbytes(r, 32).hex(), "path": "m/" + "/".join(good[:j] + [badc] + good[j:]), "malformed": True}
    for i in range(400 if t else 2):
        seed = gen.rbytes(r, 32)
        m = bip32.master(seed)
        if m is None:
            continue
        n = m
        for _ in range(r.randrange(0, 4)):
            n = bip32.ckd_priv(n, ridx(r)) or n
        for node in (n, n.neuter()):
            s = node.to_string()
            kind = "xprv" if node.key is not None else "xpub"
            yield {"k": "valid", "kind": kind, "s": s}
            for _ in range(40):
                j = r.randrange(len(s))
                c = r.choice([x for x in base58.ALPHABET if x != s[j]])
                yield {"k": "corrupt", "kind": kind, "s": s[:j] + c + s[j + 1 :], "what": "character substituted at %s" % ("the end" if j >= len(s) - 6 else "the start" if j < 6 else "the middle")}
            raw = base58.decode(s)
            bits = list(range(len(raw) * 8))
            r.shuffle(bits)
            for bit in (bits if t and i < 3 else bits[:60]):
                b = bytearray(raw)
                b[bit // 8] ^= 1 << (bit % 8)
                region = "version" if bit < 32 else "checksum" if bit >= 78 * 8 else "key" if bit >= 45 * 8 else "chain code" if bit >= 13 * 8 else "depth/fingerprint/index"
                yield {"k": "corrupt", "kind": kind, "s": base58.encode(bytes(b)), "what": "bit flipped in %s" % region}
            for tail in (b"\x00", b"\x01", gen.rbytes(r, 4), raw[-4:], gen.rbytes(r, 33)):
                yield {"k": "corrupt", "kind": kind, "s": base58.encode(raw + tail), "what": "bytes appended behind the checksum"}
            yield {"k": "corrupt", "kind": kind, "s": base58.encode(raw[:78] + gen.rbytes(r, 3) + raw[78:]), "what": "bytes inserted in front of the checksum"}
            yield {"k": "corrupt", "kind": kind, "s": s[:-1], "what": "last character dropped"}
            yield {"k": "corrupt", "kind": kind, "s": s + "1", "what": "character appended"}


def cmp_node(ctx, snap, node, where):
    """compare a driver snapshot with a reference node; returns False on mismatch"""
    kind = "prv" if "prv" in snap else "pub" if "pub" in snap else None
    if kind is None:
        ctx.viol("%s: derivation failed (%s)" % (where, "error" if "err" in snap else "panic"), {"resp": str(snap)[:200]})
        return False
    o = snap[kind]
    exp = {"string": node.to_string(), "chain": node.chain.hex(), "depth": node.depth & 0xFF, "index": node.index, "fp": node.fp.hex(), "pub": ec.ser(node.pub, True).hex()}
    got = {"string": o["string"].get("ok"), "chain": o["chain"], "depth": o["depth"], "index": o["index"], "fp": o["fp"], "pub": o["pub"].get("ok")}
    if kind == "prv":
        exp["key"] = "%064x" % node.key
        got["key"] = o["key"]
    ok = True
    if o.get("string_impl_eq") is False:
        ctx.viol("%s: to_string_impl differs from to_string" % where, {})
        ok = False
    for f in exp:
        ctx.ev()
        if got[f] != exp[f]:
            ctx.viol("%s: field %s differs from the reference BIP32" % (where, f), {"got": str(got[f])[:120], "exp": str(exp[f])[:120]})
            ok = False
    return ok


def judge(ctx, case):
    k = case["k"]
    ctx.nontrivial()
    if k == "chain":
        seed = bytes.fromhex(case["seed"])
        ctx.hit("chain")
        if len(seed) < 16 or len(seed) > 64:
            ctx.hit("odd_seed")
        node = bip32.master(seed)
        if node is None:
            return
        if case.get("deep"):
            ctx.hit("depth255")
        steps = [{q: v for q, v in s.items() if q != "idxs"} for s in case["steps"]]
        vi = bool(case.get("impl"))
        if vi:
            ctx.hit("via_impl")
        if case.get("maxlen"):
            ctx.hit("longest_path_text")
        if case.get("twin"):
            ctx.hit("neighbour_sequence")
        if case.get("zero_padded"):
            ctx.hit("zero_padded_path_component")
        if case.get("leadzero"):
            ctx.hit("child_with_leading_zero_bytes")
        if case.get("text_seed"):
            ctx.hit("seed_is_ascii_text")
        r = ctx.call({"op": "bip32", "start": {"seed": case["seed"]}, "steps": steps, "via_impl": vi}, watchdog=300)
        ctx.ev()
        if "ok" not in r:
            ctx.viol("private derivation chain could not be executed", {"resp": str(r)[:300]})
            return
        snaps = r["ok"]
        if not cmp_node(ctx, snaps[0], node, "master key from seed (%s seed length)" % ("standard" if 16 <= len(seed) <= 64 else "non-standard")):
            return
        # xpub from seed must equal the neutered master
        rp = ctx.call({"op": "bip32", "start": {"xpub_seed": case["seed"]}, "via_impl": vi})
        if "ok" in rp:
            cmp_node(ctx, rp["ok"][0], node.neuter(), "ExtendedPublicKey::from_seed")
        nodes = [node]
        for si, (st, snap) in enumerate(zip(case["steps"], snaps[1:])):
            if "derive" in st:
                i = st["derive"]
                ctx.hit("step_hardened" if i >= 2**31 else "step_normal")
                node = bip32.ckd_priv(node, i)
                where = "private child derivation (%s index)" % ("hardened" if i >= 2**31 else "normal")
            elif "path" in st:
                ctx.hit("step_path")
                for i in st["idxs"]:
                    node = bip32.ckd_priv(node, i) if node is not None else None
                where = "derive_from_path (private)"
            else:
                where = "string round-trip (xprv)"
            if node is None:
                return
            nodes.append(node)
            if not cmp_node(ctx, snap, node, where):
                return
        if len(snaps) != len(case["steps"]) + 1:
            ctx.viol("private derivation chain stopped early", {"n": len(snaps)})
            return
        # public side: neuter at a chosen point, then follow the remaining *normal* steps publicly
        na = case["neuter_at"]
        if na <= len(case["steps"]):
            psteps = [{"neuter": True}]
            pnode = nodes[na].neuter()
            expect = [pnode]
            refuse = None
            for st in case["steps"][na:]:
                idxs = [st["derive"]] if "derive" in st else st.get("idxs")
                if idxs is None:
                    psteps.append({"reparse": True})
                    expect.append(pnode)
                    continue
                psteps.append({q: v for q, v in st.items() if q != "idxs"})
                if any(i >= 2**31 for i in idxs):
                    refuse = len(psteps) - 1
                    break
                for i in idxs:
                    pnode = bip32.ckd_pub(pnode, i)
                expect.append(pnode)
            pre = [{q: v for q, v in s.items() if q != "idxs"} for s in case["steps"][:na]]
            rp = ctx.call({"op": "bip32", "start": {"seed": case["seed"]}, "steps": pre + psteps, "via_impl": vi}, watchdog=300)
            ctx.ev()
            if "ok" not in rp:
                ctx.viol("public derivation chain could not be executed", {"resp": str(rp)[:300]})
                return
            ps = rp["ok"][len(pre) + 1 :]
            for j, (snap, en) in enumerate(zip(ps, expect)):
                ctx.hit("pub_derive")
                if not cmp_node(ctx, snap, en, "public derivation from the neutered parent" if j else "neutering (from_xpriv)"):
                    return
            if refuse is not None:
                ctx.hit("pub_hardened_refused")
                ctx.ev()
                last = ps[len(expect)] if len(ps) > len(expect) else None
                if last is None or "err" not in last:
                    ctx.viol("hardened derivation from an extended public key is not refused with an error%s" % (" (derive_impl / derive_from_path_impl)" if vi else ""), {"resp": str(last)[:200]})
    elif k == "random":
        ctx.hit("random_start")
        which = case["which"]
        steps = [{q: v for q, v in s_.items()} for s_ in case["steps"]]
        r = ctx.call({"op": "bip32", "start": {"random": which}, "steps": steps})
        ctx.ev()
        if "ok" not in r or not r["ok"] or ("prv" if which == "prv" else "pub") not in r["ok"][0]:
            ctx.viol("randomly generated extended key could not be produced / serialised", {"resp": str(r)[:300]})
            return
        snaps = r["ok"]
        s0 = snaps[0][which]
        try:
            if which == "prv":
                kx = int(s0["key"], 16)
                P = ec.mul_g(kx)
            else:
                kx = None
                P = ec.parse_pub(bytes.fromhex(s0["pub"]["ok"]))
            node = bip32.Node(kx, P, bytes.fromhex(s0["chain"]), s0["depth"], s0["index"], bytes.fromhex(s0["fp"]))
        except Exception as e:
            ctx.viol("randomly generated extended key has unusable fields", {"snap": str(s0)[:300], "e": str(e)})
            return
        if (s0["depth"], s0["index"], s0["fp"]) != (0, 0, "00000000"):
            ctx.viol("randomly generated extended key is not a master key (depth/index/fingerprint non-zero)", {"snap": str(s0)[:300]})
        if not cmp_node(ctx, snaps[0], node, "from_random (%s): fields vs serialised string" % which):
            return
        for st, snap in zip(case["steps"], snaps[1:]):
            if "derive" in st:
                node = bip32.ckd_priv(node, st["derive"]) if which == "prv" else bip32.ckd_pub(node, st["derive"])
                if node is None:
                    return
            if not cmp_node(ctx, snap, node, "derivation / round-trip from a randomly generated %s key" % ("private" if which == "prv" else "public")):
                return
        if len(snaps) != len(case["steps"]) + 1:
            ctx.viol("derivation chain from a randomly generated key stopped early", {"last": str(snaps[-1])[:200]})
    elif k == "fpcoll":
        ctx.hit("parents_with_colliding_fingerprint")
        fp = bytes.fromhex(case["fp"])
        for kind in ("new_pub", "new_prv"):
            child = case["child"]
            if kind == "new_pub" and child >= 2**31:
                child -= 2**31
            for kx in (24217, 50986, 24217):
                node = bip32.Node(kx if kind == "new_prv" else None, ec.mul_g(kx), bytes.fromhex(case["chain"]), case["depth"], case["index"], fp)
                start = {"key": "%064x" % kx, "pub": ec.ser(ec.mul_g(kx), True).hex(), "chain": case["chain"], "depth": case["depth"], "index": case["index"], "fp": case["fp"]}
                r = ctx.call({"op": "bip32", "start": {kind: start}, "steps": [{"derive": child}, {"derive": case["second"]}]})
                ctx.ev()
                if "ok" not in r:
                    ctx.viol("derivation from a constructor-built extended key failed", {"resp": str(r)[:300]})
                    break
                n1 = (bip32.ckd_priv if kind == "new_prv" else bip32.ckd_pub)(node, child)
                n2 = (bip32.ckd_priv if kind == "new_prv" else bip32.ckd_pub)(n1, case["second"]) if n1 is not None else None
                if n1 is None or n2 is None:
                    break
                ok = len(r["ok"]) == 3 and cmp_node(ctx, r["ok"][1], n1, "child of a constructor-built %s key (another parent with the same fingerprint and chain code derived just before)" % ("private" if kind == "new_prv" else "public")) and cmp_node(ctx, r["ok"][2], n2, "grandchild of a constructor-built key")
                if not ok:
                    if len(r["ok"]) != 3:
                        ctx.viol("derivation chain from a constructor-built key stopped early", {"resp": str(r["ok"][-1])[:200]})
                    break
    elif k == "ctor":
        ctx.hit("ctor")
        kx = int(case["key"], 16)
        fp = bytes.fromhex(case["fp"]) if case["fp"] else b"\x00" * 4
        for kind in ("new_prv", "new_pub"):
            node = bip32.Node(kx if kind == "new_prv" else None, ec.mul_g(kx), bytes.fromhex(case["chain"]), case["depth"], case["index"], fp)
            start = {"key": case["key"], "pub": ec.ser(ec.mul_g(kx), True).hex(), "chain": case["chain"], "depth": case["depth"], "index": case["index"]}
            if case["fp"]:
                start["fp"] = case["fp"]
            r = ctx.call({"op": "bip32", "start": {kind: start}, "steps": [{"reparse": True}]})
            ctx.ev()
            if "ok" not in r or len(r["ok"]) != 2:
                ctx.viol("extended key built through the constructor (%s) could not be serialised and parsed back" % kind, {"resp": str(r)[:300]})
                continue
            if cmp_node(ctx, r["ok"][0], node, "constructor %s" % kind):
                cmp_node(ctx, r["ok"][1], node, "string round-trip of a constructor-built key (%s, %s fingerprint, depth %s)" % (kind, "zero" if fp == b"\x00" * 4 else "non-zero", "0" if case["depth"] == 0 else ">0"))
    elif k == "badpath":
        ctx.hit("badpath")
        if case.get("malformed"):
            ctx.hit("malformed_path_component")
        for kind, vi in (("seed", False), ("xpub_seed", False), ("seed", True), ("xpub_seed", True)):
            r = ctx.call({"op": "bip32", "start": {kind: case["seed"]}, "steps": [{"path": case["path"]}], "via_impl": vi})
            ctx.ev()
            if "ok" not in r:
                ctx.viol("derive_from_path with an out-of-range component fails abnormally", {"path": case["path"], "resp": str(r)[:200]})
            elif len(r["ok"]) != 2 or "err" not in r["ok"][1]:
                if case.get("malformed") and kind == "xpub_seed" and "'" in case["path"].replace(case["path"].split("/")[-1], ""):
                    pass
                ctx.viol("derive_from_path accepts %s (%s key)" % ("a malformed component (no digits / sign / letters / blanks / non-ASCII digits)" if case.get("malformed") else "a component >= 2^31", "private" if kind == "seed" else "public"), {"path": case["path"], "resp": str(r["ok"][1:])[:200]})
    elif k == "valid":
        r = ctx.call({"op": "bip32", "start": {case["kind"]: case["s"]}, "steps": [{"reparse": True}]})
        ctx.ev()
        ctx.hit("valid_string")
        ok = "ok" in r and len(r["ok"]) == 2 and all(list(s.values())[0]["string"].get("ok") == case["s"] for s in r["ok"] if "prv" in s or "pub" in s) and ("prv" in r["ok"][1] or "pub" in r["ok"][1])
        if not ok:
            ctx.viol("valid %s string does not round-trip through from_string/to_string" % case["kind"], {"s": case["s"], "resp": str(r)[:300]})
    elif k == "corrupt":
        s = case["s"]
        ctx.hit("corrupt")
        payload = base58.check_decode(s)
        if payload is not None and len(payload) == 78:
            ctx.note("corruption that still passes the checksum (no claim)")
            return
        r = ctx.call({"op": "bip32", "start": {case["kind"]: s}})
        ctx.ev()
        if "ok" not in r:
            r2 = ctx.call({"op": "bip32", "start": {case["kind"]: s}, "via_impl": True})
            ctx.ev()
            if "ok" in r2:
                ctx.viol("%s string with a checksum that no longer matches its payload is accepted by from_string_impl (%s)" % (case["kind"], case["what"]), {"s": s})
        if "ok" in r:
            ctx.viol("%s string with a checksum that no longer matches its payload is accepted (%s)" % (case["kind"], case["what"]), {"s": s, "parsed": str(r["ok"][0])[:200]})
        elif "panic" in r:
            ctx.note("extended key parser panics (C09)")
