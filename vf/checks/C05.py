"""C05 — ECDSA signatures verify, are low-S; deterministic ones follow RFC 6979; ECDH is symmetric."""
from .. import gen
from ..ref import ec, hashes

ID = "C05"
RULE = (
    "cases: every signing entry point (deterministic x {sha256,sha256d} x {normal,reversed nonce digest}, caller nonce, random nonce, pre-hashed digest, PrivateKey::sign_message) "
    "x keys {1,2,3,(n-1)/2,(n+1)/2,n-2,n-1} + random x both compression flags x message lengths 0..300 (+100 KiB); (r,s) compared bit-for-bit with an independent RFC 6979 + "
    "secp256k1 implementation, verified by the reference verifier and by all four library verifiers, and required to fail for a changed message / hash / key; ECDH both directions "
    "vs reference a*B. non-trivial = every distinct case (each performs a real signature or key agreement)"
)
ASSUMPTIONS = ["reference vf/ref/ec.py, self-tested against published RFC 6979 secp256k1 vectors", "reverse-k mode is modelled as: nonce derived from the byte-reversed digest, message scalar from the digest"]
NSHARDS = {"quick": 32, "thorough": 64}
BUDGET_S = {"quick": 200, "thorough": 1800}
MIN_HITS = {
    'quick': {"mode_det": 2560, "mode_k": 456, "mode_rand": 416, "mode_digest": 416, "mode_msg": 420, "reverse_k": 1048, "edge_key": 1499, "ecdh": 1056, "neg_verify": 23528},
    'thorough': {"mode_det": 138086, "mode_k": 23040, "mode_rand": 23040, "mode_digest": 23040, "mode_msg": 23078, "reverse_k": 57793, "edge_key": 79348, "ecdh": 53452, "neg_verify": 1266508},
}
EDGE = [1, 2, 3, (ec.N - 1) // 2, (ec.N + 1) // 2, ec.N - 2, ec.N - 1]


def selftest():
    ec.selftest()
    hashes.selftest()


def rkey(r):
    return r.choice(EDGE) if r.random() < 0.35 else r.randrange(1, ec.N)


def cases(ctx):
    r = ctx.rnd
    t = ctx.tier == "thorough"
    n = 600 if t else 26
    for i in range(n):
        x = rkey(r)
        L = r.choice([0, 1, 31, 32, 33, 55, 56, 64, 100, 300]) if r.random() < 0.6 else r.randrange(0, 301)
        if i % 97 == 5:
            L = 100 * 1024
        msg = gen.rbytes(r, L).hex()
        base = {"k": "sign", "key": x.to_bytes(32, "big").hex(), "compressed": r.random() < 0.5, "msg": msg}
        for hsh in ("sha256", "sha256d"):
            for rev in (False, True):
                yield dict(base, mode="det", hash=hsh, reverse_k=rev)
        kk = r.choice([1, 2, ec.N - 1, ec.N - 2]) if r.random() < 0.3 else r.randrange(1, ec.N)
        yield dict(base, mode="k", hash=r.choice(["sha256", "sha256d"]), nonce=kk.to_bytes(32, "big").hex())
        yield dict(base, mode="rand", hash=r.choice(["sha256", "sha256d"]), reverse_k=r.random() < 0.5)
        yield dict(base, mode="msg", hash="sha256")
        d = gen.rbytes(r, 32) if r.random() < 0.7 else r.choice([b"\x00" * 32, b"\xff" * 32, (ec.N).to_bytes(32, "big"), (ec.N - 1).to_bytes(32, "big"), (1).to_bytes(32, "big"), (1).to_bytes(32, "little"), (ec.N + 1).to_bytes(32, "big"),
                                                                 (ec.N + 1).to_bytes(32, "big")[::-1], (ec.N).to_bytes(32, "big")[::-1], (2).to_bytes(32, "little"), b"\x00" * 31 + b"\x02", (1 << 255).to_bytes(32, "big")])
        yield dict(base, mode="digest", msg=d.hex(), hash="none")
        yield {"k": "ecdh", "a": rkey(r).to_bytes(32, "big").hex(), "b": rkey(r).to_bytes(32, "big").hex(), "ca": r.random() < 0.5, "cb": r.random() < 0.5}
        # neighbours, executed back to back on the same thread: the same message under the negated key and under another key, the
        # same key with a message differing in its last / first byte only, then the first request again (state kept between calls
        # and keyed on part of the arguments only would show here)
        if i % 3 == 0 and L <= 400:
            mb = bytes.fromhex(msg)
            twins = [(ec.N - x, mb), (rkey(r), mb), (x, mb[:-1] + bytes([mb[-1] ^ 1]) if mb else b"\x00"), (x, (bytes([mb[0] ^ 0x80]) + mb[1:]) if mb else b"\x01"), (x, mb + b"\x00"), (x, mb)]
            hsh = r.choice(["sha256", "sha256d"])
            for kx, mm in twins:
                yield {"k": "sign", "key": kx.to_bytes(32, "big").hex(), "compressed": base["compressed"], "msg": mm.hex(), "mode": "det", "hash": hsh, "reverse_k": False, "twin": True}
            a_, b_ = rkey(r), rkey(r)
            for aa, bb in ((a_, b_), (a_, ec.N - b_), (ec.N - a_, b_), (a_, b_)):
                yield {"k": "ecdh", "a": "%064x" % aa, "b": "%064x" % bb, "ca": True, "cb": True}
    # key pairs whose shared x coordinate starts with two zero bytes (found by walking d*P with the reference)
    for pi_, (ra, rb) in enumerate([("a1cc719db7052664941707dc8770f0b6d75df7ee5c1faa9f52135cb13ccc38b8", "302f0ae02661ddfe99635f3e1fc4be40d2edd018cbf9952fe408726b64557121"), ("a1cc719db7052664941707dc8770f0b6d75df7ee5c1faa9f52135cb13ccc38b8", "302f0ae02661ddfe99635f3e1fc4be40d2edd018cbf9952fe408726b6456f184"), ("50060e38340466fac2041ff7e990b3eace0bd65b6406d27dd0c95e2c411bff13", "43562f72bf9b44383f98f1bb8c9e51d5ce8567493b22e7dedc4bcc230697b683"), ("50060e38340466fac2041ff7e990b3eace0bd65b6406d27dd0c95e2c411bff13", "43562f72bf9b44383f98f1bb8c9e51d5ce8567493b22e7dedc4bcc230697c315")]):
        if pi_ % ctx.nshards == ctx.shard % 4:
            for ca_ in (True, False):
                yield {"k": "ecdh", "a": ra, "b": rb, "ca": ca_, "cb": True}
                yield {"k": "ecdh", "a": rb, "b": ra, "ca": True, "cb": ca_}
    # (key, message) pairs whose RFC 6979 nonce has two leading zero bytes / lies within 2^240 of the group order - found by searching
    # with the reference (about one input in 65536 each): a signer that treats such nonces specially is no longer RFC 6979
    if ctx.shard % 4 == 2 or ctx.tier == "thorough":
        xs = 0x00C0FFEE00000000000000000000000000000000000000000000000000001234
        for (hsh, rev), idxs in {("sha256", True): (14489, 28232), ("sha256", False): (40641, 191555), ("sha256d", True): (62276, 110332), ("sha256d", False): (160782, 250820)}.items():
            for i_ in idxs:
                yield {"k": "sign", "key": "%064x" % xs, "compressed": True, "msg": (b"nonce-search-%d" % i_).hex(), "mode": "det", "hash": hsh, "reverse_k": rev, "rare_nonce": True}
        yield {"k": "sign", "key": "%064x" % xs, "compressed": True, "msg": (b"nonce-search-%d" % 191555).hex(), "mode": "msg", "hash": "sha256", "rare_nonce": True}
    # explicit-nonce signatures whose s is EXACTLY (n-1)/2 (the largest low-S value) or (n+1)/2 before normalisation: the private key is
    # solved for, d = (s*k - z)/r, for a chosen nonce and message
    if ctx.shard % 4 == 3 or ctx.tier == "thorough":
        for target in ((ec.N - 1) // 2, (ec.N + 1) // 2, (ec.N - 1) // 2 - 1, 1, ec.N - 1):
            for hsh in ("sha256", "sha256d"):
                kk = rkey(r)
                mm = gen.rbytes(r, 20)
                z_ = int.from_bytes(digest_of(hsh, mm), "big") % ec.N
                r_ = ec.mul_g(kk)[0] % ec.N
                d_ = (target * kk - z_) * ec.inv(r_, ec.N) % ec.N
                if d_ == 0:
                    continue
                yield {"k": "sign", "key": "%064x" % d_, "compressed": True, "msg": mm.hex(), "mode": "k", "hash": hsh, "nonce": "%064x" % kk, "s_target": True}
    # several threads deriving shared secrets for DIFFERENT key pairs at the same time
    if ctx.shard % 8 == 5 or ctx.tier == "thorough":
        prs = [(rkey(r), rkey(r)) for _ in range(6)]
        yield {"k": "ecdh_threads", "pairs": [["%064x" % a_, "%064x" % b_] for a_, b_ in prs], "threads": 8, "iters": 4000 if ctx.tier == "thorough" else 600}
    # ECDH against crafted peer points (not derived from a private key): x just below p (>= the group order n), tiny x (leading zero
    # bytes in the secret), combined with private keys 1 / n-1 (the secret is then the peer's own x) and ordinary keys
    if ctx.shard % 4 == 0 or ctx.tier == "thorough":
        xs = []
        for base_x, cnt in ((ec.N, 6), (ec.P - 1, -4), (1, 6), (2**128, 3), (2**255, 3), (ec.N - 1, -3)):
            x0, found = base_x, 0
            while found < abs(cnt):
                if ec.lift_x(x0, False) is not None:
                    xs.append(x0)
                    found += 1
                x0 += 1 if cnt > 0 else -1
        for x0 in xs:
            for d in (1, ec.N - 1, 2, rkey(r)):
                yield {"k": "ecdh_pt", "x": "%064x" % x0, "odd": r.random() < 0.5, "d": "%064x" % d, "cp": r.random() < 0.5}
    # one very long message (above 32 MiB), generated inside the driver so that no hex has to be shipped
    if ctx.shard in (0, 1):
        yield {"k": "longmsg", "key": rkey(r).to_bytes(32, "big").hex(), "compressed": True, "len": (32 << 20) + 1 + ctx.shard * 4096, "hash": ["sha256", "sha256d"][ctx.shard]}


def digest_of(hsh, m):
    return hashes.sha256(m) if hsh == "sha256" else hashes.sha256d(m) if hsh == "sha256d" else m


def judge(ctx, case):
    if case["k"] == "ecdh":
        a, b = int(case["a"], 16), int(case["b"], 16)
        ctx.hit("ecdh")
        ctx.nontrivial()
        A, B = ec.mul_g(a), ec.mul_g(b)
        r1 = ctx.call({"op": "ecdh", "key": case["a"], "pub": ec.ser(B, case["cb"]).hex()})
        r2 = ctx.call({"op": "ecdh", "key": case["b"], "pub": ec.ser(A, case["ca"]).hex()})
        ctx.ev()
        exp = ec.mul(a, B)[0].to_bytes(32, "big").hex()
        if r1.get("ok") != r2.get("ok"):
            ctx.viol("ECDH shared secret is not symmetric", {"ab": str(r1)[:200], "ba": str(r2)[:200]})
        if r1.get("ok") != exp:
            ctx.viol("ECDH shared secret differs from the reference x(a*B)", {"got": str(r1.get("ok", r1.get("err")))[:100], "exp": exp})
        return
    if case["k"] == "ecdh_threads":
        ctx.hit("ecdh_concurrent_threads")
        ctx.nontrivial()
        items = []
        for a_, b_ in case["pairs"]:
            B_ = ec.mul_g(int(b_, 16))
            items.append({"key": a_, "pub": ec.ser(B_, True).hex(), "exp": "%064x" % ec.mul(int(a_, 16), B_)[0]})
        r_ = ctx.call({"op": "ecdh_mt", "items": items, "threads": case["threads"], "iters": case["iters"]}, watchdog=900)
        ctx.ev()
        if "ok" not in r_:
            ctx.viol("concurrent ECDH derivation could not be executed", {"resp": str(r_)[:300]})
        elif r_["ok"]["mismatches"]:
            ctx.viol("ECDH shared secret differs from the reference when several threads derive for different key pairs at the same time", {"mismatches": r_["ok"]["mismatches"], "calls": r_["ok"]["calls"]})
        else:
            ctx.maxstat("concurrent_ecdh_calls_observed", r_["ok"]["calls"])
        return
    if case["k"] == "ecdh_pt":
        x0, d = int(case["x"], 16), int(case["d"], 16)
        Pt = ec.lift_x(x0, case["odd"])
        ctx.hit("ecdh_crafted_point")
        ctx.nontrivial()
        exp_x = ec.mul(d, Pt)[0]
        if x0 >= ec.N and d in (1, ec.N - 1):
            ctx.hit("ecdh_secret_x>=n")
        if exp_x < 2**240:
            ctx.hit("ecdh_secret_leading_zeros")
        r1 = ctx.call({"op": "ecdh", "key": case["d"], "pub": ec.ser(Pt, case["cp"]).hex()})
        ctx.ev()
        exp = exp_x.to_bytes(32, "big").hex()
        if r1.get("ok") != exp:
            ctx.viol("ECDH shared secret with a crafted peer point differs from the reference x(d*P) (%s)" % ("x >= group order" if exp_x >= ec.N else "x with leading zero bytes" if exp_x < 2**240 else "ordinary x"), {"got": str(r1)[:200], "exp": exp, "pub": ec.ser(Pt, True).hex(), "d": case["d"]})
        return
    if case["k"] == "longmsg":
        n = case["len"]
        msg = bytes((i * 31 + 7) & 0xFF for i in range(256)) * (n // 256 + 1)
        msg = msg[:n]
        x = int(case["key"], 16)
        ctx.hit("long_message")
        ctx.nontrivial()
        d = digest_of(case["hash"], msg)
        r = ctx.call({"op": "ecdsa_sign", "mode": "det", "key": case["key"], "compressed": True, "msg_gen": {"len": n}, "hash": case["hash"], "reverse_k": False}, watchdog=600)
        ctx.ev()
        if "ok" not in r:
            ctx.viol("signing a message longer than 32 MiB failed", {"resp": str(r)[:200]})
            return
        e = ec.sign_det(x, d)
        if (int(r["ok"]["r"], 16), int(r["ok"]["s"], 16)) != (e[0], e[1]):
            ctx.viol("deterministic signature over a message longer than 32 MiB differs from the reference", {})
        v = ctx.call({"op": "ecdsa_verify", "pub": r["ok"]["pub"], "r": r["ok"]["r"], "s": r["ok"]["s"], "msg_gen": {"len": n}, "hash": case["hash"]}, watchdog=600)
        ctx.ev()
        if v.get("ok", {}).get("verify_digest", {}).get("ok") is not True:
            ctx.viol("verify_digest rejects a genuine signature over a message longer than 32 MiB", {"resp": str(v)[:200]})
        return
    x = int(case["key"], 16)
    mode = case["mode"]
    m = bytes.fromhex(case["msg"])
    ctx.hit("mode_" + mode)
    if case.get("twin"):
        ctx.hit("neighbour_sequence")
    if case.get("s_target"):
        ctx.hit("s_on_the_low_s_boundary")
    if case.get("rare_nonce"):
        ctx.hit("rfc6979_nonce_with_rare_shape")
    ctx.nontrivial()
    if x in EDGE:
        ctx.hit("edge_key")
    if case.get("reverse_k"):
        ctx.hit("reverse_k")
    req = {"op": "ecdsa_sign", "mode": mode, "key": case["key"], "compressed": case["compressed"], "msg": case["msg"]}
    if mode in ("det", "rand", "k"):
        req["hash"] = case["hash"]
    if mode in ("det", "rand"):
        req["reverse_k"] = case["reverse_k"]
    if mode == "k":
        req["k"] = case["nonce"]
    r = ctx.call(req)
    ctx.ev()
    label = "%s%s" % (mode, "(reverse_k)" if case.get("reverse_k") else "")
    if "ok" not in r:
        ctx.viol("signing entry point %s failed for valid arguments" % label, {"resp": {q: r[q] for q in r if q in ("err", "panic", "death")}})
        return
    o = r["ok"]
    rr, ss = int(o["r"], 16), int(o["s"], 16)
    hsh = "sha256" if mode == "msg" else case["hash"]
    d = digest_of(hsh, m)
    z = int.from_bytes(d, "big") % ec.N
    Q = ec.mul_g(x)
    if o["pub"] != ec.ser(Q, case["compressed"]).hex():
        ctx.viol("public key of the signing key differs from the reference", {})
    if ss > ec.HALF_N:
        ctx.viol("signature from %s has s above half the group order" % label, {"s": o["s"]})
    if not ec.verify(Q, z, rr, ss):
        ctx.viol("signature from %s does not verify under the signer's key (reference verifier)" % label, {"r": o["r"], "s": o["s"]})
    # bit-exactness
    if mode in ("det", "msg", "digest"):
        kd = d[::-1] if case.get("reverse_k") else d
        e = ec.sign_det(x, d, kd)
        ctx.ev()
        if (rr, ss) != (e[0], e[1]):
            ctx.viol("deterministic signature from %s differs from RFC 6979 + low-S reference" % label, {"got": (o["r"], o["s"]), "exp": ("%064x" % e[0], "%064x" % e[1])})
        r_again = ctx.call(req)
        ctx.ev()
        if r_again.get("ok", {}).get("r") != o["r"] or r_again.get("ok", {}).get("s") != o["s"]:
            ctx.viol("deterministic signature from %s is not reproducible" % label, {})
    elif mode == "k":
        e = ec.sign_with_k(x, z, int(case["nonce"], 16))
        ctx.ev()
        if e is not None and (rr, ss) != (e[0], e[1]):
            ctx.viol("explicit-nonce signature differs from the reference for that nonce", {"got": (o["r"], o["s"])})
    # library verifiers: accept the right triple, reject changed message / hash / key
    if mode == "digest":
        v = ctx.call({"op": "ecdsa_verify", "pub": o["pub"], "r": o["r"], "s": o["s"], "msg": "00", "hash": "sha256", "digest": case["msg"]})
        ctx.ev()
        if v.get("ok", {}).get("verify_hashbuf", {}).get("ok") is not True:
            ctx.viol("verify_hashbuf rejects the signature made over that digest", {"resp": str(v)[:300]})
        bad = bytearray(m)
        bad[5] ^= 0x10
        v2 = ctx.call({"op": "ecdsa_verify", "pub": o["pub"], "r": o["r"], "s": o["s"], "msg": "00", "hash": "sha256", "digest": bytes(bad).hex()})
        ctx.ev()
        ctx.hit("neg_verify")
        if v2.get("ok", {}).get("verify_hashbuf", {}).get("ok") is True and (int.from_bytes(bytes(bad), "big") - z) % ec.N != 0:
            ctx.viol("verify_hashbuf accepts the signature for a different digest", {})
        return

    def lib_accepts(msg_hex, hash_name, pub_hex, which="verify_digest"):
        v = ctx.call({"op": "ecdsa_verify", "pub": pub_hex, "r": o["r"], "s": o["s"], "msg": msg_hex, "hash": hash_name, "digest": digest_of(hash_name, bytes.fromhex(msg_hex)).hex()})
        if "ok" not in v:
            return None, v
        return v["ok"], v

    res, raw = lib_accepts(case["msg"], hsh, o["pub"])
    ctx.ev()
    if res is None:
        ctx.viol("verification call failed", {"resp": str(raw)[:300]})
        return
    if res["verify_digest"].get("ok") is not True:
        ctx.viol("verify_digest rejects a signature from %s for the same message, hash and key" % label, {"resp": str(res["verify_digest"])[:200]})
    if res["verify_hashbuf"].get("ok") is not True:
        ctx.viol("verify_hashbuf rejects a signature from %s over the message digest" % label, {"resp": str(res["verify_hashbuf"])[:200]})
    if hsh == "sha256":
        for fld in ("sig_verify_message", "pub_is_valid_message"):
            if res[fld].get("ok") is not True:
                ctx.viol("%s rejects a valid SHA-256 signature" % fld, {})
        if res["pub_verify_message"].get("ok") is not True:
            ctx.viol("PublicKey::verify_message rejects a valid SHA-256 signature", {})
    # the same key presented in the OTHER SEC1 form verifies as well (a key is a point, not an encoding) - and this call sits between
    # the genuine verification and the negated-key one below on purpose
    oth = ec.ser(ec.mul_g(x), not case["compressed"]).hex()
    res_o, _ = lib_accepts(case["msg"], hsh, oth)
    ctx.ev()
    ctx.hit("verify_other_encoding")
    if res_o is not None:
        for fld in ("verify_digest", "verify_hashbuf") + (("sig_verify_message", "pub_verify_message", "pub_is_valid_message") if hsh == "sha256" else ()):
            if res_o[fld].get("ok") is not True:
                ctx.viol("%s rejects a valid signature when the signer's key is given in the other SEC1 form" % fld, {"resp": str(res_o[fld])[:200]})
    # genuine key again, then IMMEDIATELY the negated key (same x coordinate, other y) on the same thread
    lib_accepts(case["msg"], hsh, o["pub"])
    negk = ec.ser(ec.mul_g(ec.N - x), case["compressed"]).hex()
    res_n, _ = lib_accepts(case["msg"], hsh, negk)
    ctx.ev()
    ctx.hit("neg_verify")
    if res_n is not None:
        for fld in ("verify_digest", "verify_hashbuf") + (("sig_verify_message", "pub_verify_message", "pub_is_valid_message") if hsh == "sha256" else ()):
            if res_n[fld].get("ok") is True:
                ctx.viol("%s accepts the signature under the negated key right after a genuine verification" % fld, {})
    # negatives
    other_msg = (m + b"\x01").hex() if len(m) < 1000 else m[:-1].hex()
    other_hash = "sha256d" if hsh == "sha256" else "sha256"
    other_key = ec.ser(ec.mul_g((x % (ec.N - 1)) + 1), case["compressed"]).hex()
    negs = {"message": (other_msg, hsh, o["pub"]), "hash choice": (case["msg"], other_hash, o["pub"]), "key": (case["msg"], hsh, other_key)}
    # structurally related "other messages": the digests of the signed message (a verifier that also tries the message as a pre-hashed
    # digest would accept these)
    if m not in (hashes.sha256(m), hashes.sha256d(m)):
        negs["message (the SHA-256 of the signed message)"] = (hashes.sha256(m).hex(), hsh, o["pub"])
        negs["message (the double SHA-256 of the signed message)"] = (hashes.sha256d(m).hex(), hsh, o["pub"])
    for what, (mh, hn, pk) in negs.items():
        res2, _ = lib_accepts(mh, hn, pk)
        ctx.ev()
        ctx.hit("neg_verify")
        if res2 is None:
            continue
        for fld in ("verify_digest", "verify_hashbuf") + (("sig_verify_message", "pub_verify_message", "pub_is_valid_message") if hn == "sha256" else ()):
            if res2[fld].get("ok") is True:
                ctx.viol("%s accepts the signature for a different %s" % (fld, what), {})
