"""C18 — extended-transaction JSON and CBOR encodings are lossless."""
from .. import gen
from ..ref import wire

ID = "C18"
RULE = (
    "cases: transactions from the C01 grammar (coinbase and non-coinbase inputs, every push form incl. empty PUSHDATA and non-minimal pushes, nested conditionals), extended fields "
    "(satoshis incl. 0 / 2^63 / 2^64-1, locking script) present or absent per input; encoded through to_json_string, to_json, to_compact_bytes, to_compact_hex and decoded with the matching "
    "from_*; accessor-level dump (never PartialEq), wire bytes and id compared before/after; the same for a lone TxIn through CBOR and serde JSON. non-trivial = every distinct case with >=1 input"
)
ASSUMPTIONS = ["before/after comparison uses only the library's accessors and wire serialisation (no reference model is needed for a round-trip property)"]
NSHARDS = {"quick": 32, "thorough": 64}
BUDGET_S = {"quick": 200, "thorough": 1800}
MIN_HITS = {
    'quick': {"tx": 1121, "coinbase_tx": 179, "ext_satoshis": 1436, "ext_locking": 1278, "sat_2^64-1": 99, "txin": 4328, "conditional": 1693, "empty_pushdata": 564},
    'thorough': {"tx": 461419, "coinbase_tx": 67909, "ext_satoshis": 617335, "ext_locking": 539936, "sat_2^64-1": 40835, "txin": 921108, "conditional": 729591, "empty_pushdata": 261237},
}
SATS = [0, 1, 2**53, 2**53 + 1, 2**63 - 1, 2**63, 2**64 - 2, 2**64 - 1, 0x0102030405060708]


def cases(ctx):
    yield from extra_cases(ctx)
    r = ctx.rnd
    t = ctx.tier == "thorough"
    # conditionals nested to increasing depth (the document formats nest one or two levels per conditional)
    if ctx.shard % 8 == 0:
        for depth in (5, 10, 20, 30, 31, 32, 40, 50, 60, 61, 62, 64, 70, 100, 120, 126, 127, 128, 140):
            for with_else in (False, True):
                tx = gen.gen_tx(r, 1, 1, coinbase=False, script_kw={"n_tokens": 0})
                tx["outs"][0]["script"] = nested_script(depth, with_else)
                yield {"k": "tx", "tx": wire.tx_encode(tx).hex(), "ext": [{"locking": nested_script(min(depth, 20), with_else).hex(), "satoshis": 1}], "depth": depth}
    for i in range(10000 if t else 50):
        tx = gen.gen_tx(r, r.choice([1, 1, 2, 3, 5]), r.choice([0, 1, 2, 4]), coinbase=(r.random() < 0.15), script_kw={"minimal": r.random() < 0.4, "depth": r.choice([1, 3, 5]), "n_tokens": r.choice([0, 1, 3, 8, 20]), "push_lens": [0, 0, 1, 2, 20, 75, 76, 255, 256, 300]})
        ext = []
        for _ in tx["ins"]:
            if r.random() < 0.3:
                ext.append(None)
            else:
                e = {}
                if r.random() < 0.8:
                    e["satoshis"] = r.choice(SATS) if r.random() < 0.6 else r.getrandbits(64)
                if r.random() < 0.7:
                    e["locking"] = gen.gen_script(r, r.choice([0, 1, 5, 12]), minimal=r.random() < 0.5, push_lens=[0, 1, 20, 33, 76]).hex()
                ext.append(e or None)
        yield {"k": "tx", "tx": wire.tx_encode(tx).hex(), "ext": ext}
        if i % 5 == 0 and tx["ins"]:
            # scripts handed over as element lists in which a balanced conditional is kept as FLAT opcodes (possible through
            # from_script_bits / push): same wire bytes as the nested form, different element list
            flat = r.choice([[{"push": ""}], [{"op": 81}, {"push": ""}, {"op": 117}], [{"push": "ab" * 76}], [{"push": "cd" * 300}, {"op": 117}], [{"op": 81}, {"op": 99}, {"op": 82}, {"op": 104}], [{"op": 99}, {"op": 104}], [{"op": 0}, {"op": 100}, {"op": 97}, {"op": 103}, {"op": 81}, {"op": 104}, {"push": "aabb"}],
                             [{"op": 81}, {"op": 99}, {"op": 99}, {"op": 104}, {"op": 104}], [{"push": "01"}, {"op": 99}, {"if": 99, "pass": [{"op": 81}], "fail": None}, {"op": 104}]])
            c2 = {"k": "tx", "tx": wire.tx_encode(tx).hex(), "ext": ext, "flat": True}
            if not wire.is_coinbase_in(tx["ins"][0]):
                c2["in_bits"] = {"0": flat}
            if tx["outs"]:
                c2["out_bits"] = {str(len(tx["outs"]) - 1): flat}
            if "in_bits" in c2 or "out_bits" in c2:
                yield c2
        # inputs as the construction API allows them but no parser produces them: previous-transaction ids that are NOT 32 bytes long
        # (empty as in TxIn::default(), 1, 31, 33, 64 bytes; all zero and not), with the null output index and ordinary ones, and scripts of
        # one push / one opcode / nothing - every field survives the document forms unchanged
        if i == 0:
            for tl in (0, 1, 31, 33, 64):
                for fill in (0x00, 0xAB):
                    for vout_ in (0xFFFFFFFF, 0, 7):
                        for sc_ in ("03aabbcc", "51", "", "015152", "4c03aabbcc"):
                            yield {"k": "txin", "in": {"txid": ("%02x" % fill) * tl, "vout": vout_, "script": sc_, "coinbase": False, "seq": 0xFFFFFFFE}, "odd_txid": True}
        for i_, e in zip(tx["ins"], ext):
            c = {"k": "txin", "in": {"txid": i_["txid_wire"][::-1].hex(), "vout": i_["vout"], "script": i_["script"].hex(), "coinbase": wire.is_coinbase_in(i_), "seq": i_["seq"]}}
            if e:
                c["in"].update(e)
            yield c


LOGLENS = sorted(set([75, 76, 255, 256, 520, 521] + [v for k_ in range(9, 18) for v in (2**k_ - 1, 2**k_, 2**k_ + 1, 3 * 2 ** (k_ - 1))] + [100000]))


def extra_cases(ctx):
    """(a) data elements / coinbase scripts of log-spaced lengths (not only the classic boundaries: a window such as 2049..4096 lies
    between them); (b) a run of REJECTED documents on the thread, then an ordinary round trip on the same thread"""
    r = ctx.rnd
    for li, L in enumerate(LOGLENS):
        if li % ctx.nshards != ctx.shard % len(LOGLENS) and ctx.tier != "thorough":
            if (li + 7) % ctx.nshards != ctx.shard:
                continue
        data = gen.rbytes(r, L)
        push = wire.detok([gen.push_tok(r, 1, True)])[:0] + wire.minimal_push(data)
        tx = gen.gen_tx(r, 1, 1, coinbase=False)
        tx["ins"][0]["script"] = push
        tx["outs"][0]["script"] = b"\x6a" + push
        yield {"k": "tx", "tx": wire.tx_encode(tx).hex(), "ext": [{"locking": push.hex(), "satoshis": 5}], "loglen": L}
        cb = gen.gen_tx(r, 1, 1, coinbase=True)
        cb["ins"] = [gen.gen_txin(r, script=data, coinbase=True)]
        yield {"k": "tx", "tx": wire.tx_encode(cb).hex(), "ext": [None], "loglen": L}
    if ctx.shard % 4 == 0 or ctx.tier == "thorough":
        tx = gen.gen_tx(r, 2, 2, coinbase=False, script_kw={"depth": 3, "n_tokens": 8, "p_if": 0.4})
        tx["outs"][0]["script"] = nested_script(5, True)
        yield {"k": "poison", "tx": wire.tx_encode(tx).hex(), "ext": [None, None], "n_bad": r.choice([4, 8, 40]), "bad_depth": r.choice([10, 40, 60])}


def nested_script(depth, with_else):
    return b"\x63" * depth + b"\x51" + ((b"\x67\x52\x68" if with_else else b"\x68") * depth)


def diff(before, after):
    out = []
    for f in ("bytes", "id", "version", "locktime", "n_in", "n_out", "size", "is_coinbase", "outpoints"):
        if before.get(f) != after.get(f):
            out.append(f)
    for name in ("ins", "outs"):
        if len(before[name]) != len(after[name]):
            out.append(name + ".len")
            continue
        for a, b in zip(before[name], after[name]):
            for f in a:
                if a[f] != b.get(f):
                    out.append("%s.%s" % (name[:-1], f))
    return sorted(set(out))


def judge(ctx, case):
    if case["k"] == "poison":
        # documents in the library's own schema whose innermost element is invalid, nested inside conditionals: each is rejected ...
        ctx.hit("rejected_documents_then_round_trip")
        pre, post = '{"code":"OP_IF","pass":[', '],"fail":null}'
        d = case["bad_depth"]
        for i in range(case["n_bad"]):
            inner = ['"OP_NOT_AN_OPCODE"', '{"code":"OP_IF","pass":7,"fail":null}', '"zz"', "12"][i % 4]
            sj = "[" + pre * d + inner + post * d + "]"
            doc = '{"version":1,"inputs":[{"prev_tx_id":"%s","vout":0,"script_sig":%s,"sequence":1}],"outputs":[],"n_locktime":0}' % ("11" * 32, sj)
            for which, body in (("tx_from_json_string", {"text": doc}), ("script_serde_json", {"text": sj})):
                rq = {"op": "decode", "which": which}
                rq.update(body)
                ctx.call(rq)
            # the same shape as CBOR
            from .. import docmut
            import json as _json, sys as _sys

            _sys.setrecursionlimit(10000)
            try:
                cb = docmut.cbor(_json.loads(doc))
                ctx.call({"op": "decode", "which": "tx_from_compact_bytes", "hex": cb.hex()})
            except (ValueError, RecursionError):
                pass
        # ... and then an ordinary transaction with conditionals must still round-trip on this thread
        case = dict(case, k="tx")
    if case["k"] == "tx":
        tx = wire.tx_decode(bytes.fromhex(case["tx"]))
        ctx.hit("tx")
        if tx["ins"]:
            ctx.nontrivial()
        cb = any(wire.is_coinbase_in(i) for i in tx["ins"])
        if cb:
            ctx.hit("coinbase_tx")
        if "loglen" in case:
            ctx.hit("log_spaced_element_length")
        for e in case["ext"]:
            if e and "satoshis" in e:
                ctx.hit("ext_satoshis")
                if e["satoshis"] == 2**64 - 1:
                    ctx.hit("sat_2^64-1")
            if e and "locking" in e:
                ctx.hit("ext_locking")
        for s in [i["script"] for i in tx["ins"] if not wire.is_coinbase_in(i)] + [o["script"] for o in tx["outs"]]:
            try:
                tk = wire.tokenize(s)
            except wire.ScriptTrunc:
                continue
            if any(t[0] == "op" and t[1] in (99, 100, 101, 102) for t in tk):
                ctx.hit("conditional")
            if any(t[0] == "pd" and not t[2] for t in tk):
                ctx.hit("empty_pushdata")
        rq = {"op": "tx_codec", "tx": case["tx"], "ext": case["ext"]}
        if case.get("flat"):
            ctx.hit("flat_conditional_elements")
            for f in ("in_bits", "out_bits"):
                if f in case:
                    rq[f] = case[f]
        r = ctx.call(rq)
        if "ok" not in r:
            ctx.ev()
            ctx.viol("extended transaction could not be set up / encoded", {"resp": str(r)[:300]})
            return
        before = r["ok"]["before"]
        for via in ("json_string", "json", "cbor", "cbor_hex"):
            a = r["ok"][via]
            ctx.ev()
            fmt = "JSON" if via.startswith("json") else "CBOR"
            kind = "coinbase transaction" if cb else "transaction"
            if "ok" not in a:
                why = "encoding fails" if "ser_err" in a else "decoding fails" if "err" in a else "panic"
                if "depth" in case and "ecursion" in str(a):
                    lim = 61 if fmt == "JSON" else 126  # deepest nesting the document decoders of the unchanged library still read back
                    dcls = ("<=%d" % lim) if case["depth"] <= lim else (">=%d" % (lim + 1))
                    ctx.viol("%s round trip fails with a recursion limit for conditionals nested %s deep" % (fmt, dcls), {"via": via, "depth": case["depth"], "resp": str(a)[:200]})
                else:
                    ctx.viol("%s round trip of a %s: %s" % (fmt, kind, why), {"via": via, "resp": str(a)[:300]})
                continue
            if a["ok"].get("script_bits_eq") is False:
                ctx.viol("%s round trip of a %s changes the element list of a script (%s)" % (fmt, kind, "flat conditional opcodes" if case.get("flat") else "parsed script"), {"via": via})
            elif a["ok"].get("partial_eq") is False and not diff(before, a["ok"]):
                ctx.viol("%s round trip of a %s: the decoded object is not == the original although every accessor agrees" % (fmt, kind), {"via": via})
            d = diff(before, a["ok"])
            if d:
                coin_only = cb and all(x in ("bytes", "id", "size", "in.script", "in.script2", "in.script_size") for x in d)
                ctx.viol("%s round trip of a %s changes fields: %s" % (fmt, kind, "unlocking script of the coinbase input (wire bytes, id)" if coin_only else ",".join(d[:4])), {"via": via, "fields": d})
    else:
        ctx.hit("txin")
        if case.get("odd_txid"):
            ctx.hit("txin_with_a_txid_that_is_not_32_bytes")
        ctx.nontrivial()
        r = ctx.call({"op": "txin_codec", "in": case["in"]})
        if "ok" not in r:
            ctx.ev()
            ctx.viol("single input could not be set up / encoded", {"resp": str(r)[:300]})
            return
        before = r["ok"]["before"]
        cb = case["in"]["coinbase"]
        for via in ("cbor", "cbor_hex", "json_string", "json"):
            a = r["ok"][via]
            ctx.ev()
            fmt = "CBOR" if via.startswith("cbor") else "serde JSON"
            kind = "coinbase input" if cb else "input"
            if "ok" not in a:
                ctx.viol("%s round trip of a single %s fails" % (fmt, kind), {"via": via, "resp": str(a)[:300]})
                continue
            d = sorted(f for f in before if before[f] != a["ok"].get(f))
            if d:
                coin_only = cb and all(x in ("bytes", "script", "script2", "script_size") for x in d)
                ctx.viol("%s round trip of a single %s changes fields: %s" % (fmt, kind, "unlocking script of the coinbase input" if coin_only else ",".join(d[:4])), {"via": via, "fields": d})
