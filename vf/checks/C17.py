"""C17 — script ASM text is a faithful, re-parseable rendering of the script."""
import itertools

from .. import gen
from ..ref import asm, wire

ID = "C17"
RULE = (
    "cases: exhaustive over all scripts of <=2 tokens from an alphabet of every plain opcode, the 256 one-byte pushes, and pushes of length 2,75,76,255,256 with digit-only and random "
    "content; grammar scripts with nested IF/NOTIF/ELSE/ENDIF (empty and missing branches, depth<=50) and pushes up to 70000 bytes; each script: to_asm_string -> from_asm_string -> bytes "
    "must reproduce the bytes, also under inter-token whitespace perturbation (runs of spaces, \\n, \\r\\n, tabs, leading/trailing); extended rendering compared token-by-token with the "
    "reference; hand-made token strings: names/aliases/even hex accepted, odd-length hex / non-hex / unknown OP_ rejected. non-trivial = distinct minimally-pushed script with >=1 push or conditional"
)
ASSUMPTIONS = ["reference renderer/parser vf/ref/asm.py", "opcode names are the exact upper-case spellings (hex data is case-insensitive); no claim for: whitespace inside a token, a bare newline with no surrounding space, OP_PUSHDATAn names used as bare tokens"]
NSHARDS = {"quick": 32, "thorough": 64}
BUDGET_S = {"quick": 200, "thorough": 1800}
MIN_HITS = {
    'quick': {"exh2": 71442, "grammar": 845, "ws": 1396, "xasm": 79455, "digit_push": 34805, "reject_case": 1410, "accept_case": 251, "conditional": 25847},
    'thorough': {"exh2": 85730, "grammar": 768051, "ws": 1302760, "xasm": 862383, "digit_push": 322095, "reject_case": 661180, "accept_case": 260419, "conditional": 539980, "push>=65536": 21370},
}
SEPS = [" ", "  ", "     ", " \n ", " \r\n ", " \n\n ", " \t ", "\n ", " \n", " \r\n", "\t ",
        # Unicode whitespace / line breaks attached to the tokens on either side of the separating blank
        "\u0085 ", " \u0085", "\u00a0 \u00a0", " \u2028", "\u2029 ", "\u3000 \u3000", " \u2003 ", "\x0b ", " \x0c", "\u1680 \u205f", " \u202f "]


def alphabet():
    a = [("op", c) for c in wire.PLAIN_OPCODES]
    a += [("push", bytes([v])) for v in range(256)]
    for L in (2, 75):
        a.append(("push", bytes([0x12] * L)))
        a.append(("push", bytes((i * 37 + 11) & 0xFF for i in range(L))))
    a += [("push", b"\x10\x00"), ("push", b"\x00\x16"), ("push", b"\x09\x99"), ("push", b"\x16\x16")]
    for L, c in ((76, 76), (255, 76), (256, 77)):
        a.append(("pd", c, bytes([0x34] * L)))
        a.append(("pd", c, bytes((i * 91 + 5) & 0xFF for i in range(L))))
    return a


def cases(ctx):
    r = ctx.rnd
    S, N = ctx.shard, ctx.nshards
    t = ctx.tier == "thorough"
    A = alphabet()
    k = 0
    for a in A:
        k += 1
        if k % N == S:
            yield {"k": "script", "hex": wire.detok([a]).hex(), "tag": "exh1"}
    for a in A:
        for b in A:
            k += 1
            if k % N == S:
                yield {"k": "script", "hex": wire.detok([a, b]).hex(), "tag": "exh2"}
    if S == 0:
        ctx.exhaustive.append("all scripts of 1 and 2 tokens over a %d-token alphabet (every plain opcode, all 256 one-byte pushes, 2/75/76/255/256-byte pushes)" % len(A))
    # exhaustive over short scripts from a structural alphabet: several ELSE per IF, stray ELSE/ENDIF, empty branches (only those the parser accepts are judged)
    SA = [0x63, 0x64, 0x67, 0x68, 0x51, 0x00]
    kk = 0
    for L in range(2, 7):
        for combo in itertools.product(SA, repeat=L):
            kk += 1
            if kk % N == S:
                yield {"k": "script", "hex": bytes(combo).hex(), "tag": "structural", "may_reject": True}
    n = 20000 if t else 50
    for i in range(n):
        depth = r.choice([1, 2, 4, 8, 20, 50])
        pl = [1, 1, 2, 2, 3, 20, 33, 75, 76, 255, 256, 520] + ([65535, 65536, 70000] if r.random() < (0.1 if t else 0.03) else [])
        toks = gen.gen_tokens(r, r.choice([1, 2, 3, 5, 8, 20, 60]), depth=depth, minimal=True, push_lens=pl, openers=(99, 100), p_if=0.3 if depth > 4 else 0.15)
        # digit-looking payloads
        toks = [("push", bytes(r.choice([0x10, 0x11, 0x12, 0x15, 0x16, 0x09, 0x99, 0x00, 0x01]) for _ in t_[1])) if t_[0] == "push" and len(t_[1]) <= 2 and r.random() < 0.5 else t_ for t_ in toks]
        toks = [t_ for t_ in toks if not (t_[0] == "op" and t_[1] == 0 and False)]
        yield {"k": "script", "hex": wire.detok(toks).hex(), "tag": "grammar", "ws_seed": r.getrandbits(30)}
    # conditionals opened by each of the four openers, alone, nested in each other, with and without ELSE (the parser folds all four)
    kk2 = 0
    for o1 in (0x63, 0x64, 0x65, 0x66):
        for body in (b"", b"\x51", b"\x51\x67\x52", b"\x67", b"\x67\x67"):
            for o2 in (None, 0x63, 0x64, 0x65, 0x66):
                kk2 += 1
                if kk2 % N != S:
                    continue
                inner = (bytes([o2]) + b"\x53\x68") if o2 else b""
                yield {"k": "script", "hex": (b"\x51" + bytes([o1]) + inner + body + b"\x68").hex(), "tag": "structural", "may_reject": True}
    # conditionals nested 1000 .. 2500 deep (well below the depth at which the recorded native-stack finding starts)
    for di, dpt in enumerate((1000, 1024, 1025, 1500, 2500)):
        if di % N == S % 5 and (S < 5 or t):
            yield {"k": "script", "hex": (b"\x63" * dpt + b"\x51" + b"\x68" * dpt).hex(), "tag": "grammar"}
    # single minimal pushes of log-spaced lengths
    for li, L in enumerate(sorted(set([75, 76, 255, 256, 520, 521] + [v for k_ in range(9, 18) for v in (2**k_ - 1, 2**k_, 2**k_ + 1, 3 * 2 ** (k_ - 1))] + [100000]))):
        if li % N != S:
            continue
        d_ = gen.rbytes(r, L)
        yield {"k": "script", "hex": wire.minimal_push(d_).hex(), "tag": "grammar", "ws_seed": r.getrandbits(30)}
        yield {"k": "script", "hex": (b"\x51\x63" + wire.minimal_push(d_) + b"\x68").hex(), "tag": "grammar"}
    # every opcode name WITHOUT its OP_ prefix, upper and lower case, alone and between two valid tokens: a token is an opcode only under
    # its full name; what remains is a numeric alias, even-length hex data (1ADD = the two bytes 1a dd) or an error - the reference decides
    for ni, nm in enumerate(sorted(asm.NAME2OP)):
        if ni % N != S or not nm.startswith("OP_") or len(nm) <= 3:
            continue
        for tok_ in (nm[3:], nm[3:].lower(), nm[2:], nm[3:] + "_", "OP" + nm[3:], "OP_OP_" + nm[3:]):
            yield {"k": "text", "text": tok_, "expect": "ref", "prefixless": True}
            yield {"k": "text", "text": "OP_1 " + tok_ + " 51", "expect": "ref", "prefixless": True}
    # hand-made text
    names = list(asm.NAME2OP) + list(asm.ALIASES)
    for i in range(6000 if t else 12):
        good = [r.choice(names) if r.random() < 0.6 else gen.rbytes(r, r.choice([1, 2, 3, 20, 76])).hex() for _ in range(r.randrange(1, 6))]
        # hex data in lower, upper and mixed case is all "even-length hex"
        good = [(g.upper() if r.random() < 0.3 else "".join(ch.upper() if r.random() < 0.5 else ch for ch in g)) if (r.random() < 0.5 and not g.startswith("OP_") and len(g) > 2 and not g.isdigit()) else g for g in good]
        good = [g for g in good if g not in ("OP_IF", "OP_NOTIF", "OP_VERIF", "OP_VERNOTIF", "OP_ELSE", "OP_ENDIF", "OP_PUSHDATA1", "OP_PUSHDATA2", "OP_PUSHDATA4")] or ["OP_1"]
        yield {"k": "text", "text": " ".join(good), "expect": "accept"}
        bad = r.choice(["abc", "0x51", "OP_FOO", "OP_1X", "zz", "12345", "OP_", "51 5", "g0", "-1", "17", "OP_CHECKSIGX", "1a2", "OP_DUP,", "0b", "op_dup", "Op_Dup", "OP_dup", "op_if", "op_1", "oP_cHECKSIG", "op_0", "OP_endif"])
        j = r.randrange(len(good) + 1)
        yield {"k": "text", "text": " ".join(good[:j] + [bad] + good[j:]), "expect": "reject"}
        # invisible characters that are NOT whitespace (byte-order mark, zero-width space/joiner, soft hyphen, NUL), alone or glued to
        # an otherwise valid token, at the very start, in the middle and at the very end of the text
        # escape sequences of other text formats inside a token (JSON \\uXXXX, percent-encoding, HTML entities, quotes)
        esc_bad = r.choice(["OP_\\u0044UP", "\\u004fP_DUP", "OP_DUP\\n", "\"OP_DUP\"", "'OP_1'", "OP%5FDUP", "OP&#95;DUP", "OP_D\\x55P", "\\x51", "5\\u0031", "\\u0035\\u0031"])
        j3 = r.randrange(len(good) + 1)
        yield {"k": "text", "text": " ".join(good[:j3] + [esc_bad] + good[j3:]), "expect": "reject", "invisible": True}
        alias_bad = [a_ for a_ in ("OP_FALSE", "OP_TRUE", "OP_CLTV", "OP_CSV", "OP_CHECKLOCKTIMEVERIFY", "OP_CHECKSEQUENCEVERIFY", "OP_NOP2", "OP_NOP3", "FALSE", "TRUE", "OP_ZERO", "OP_ONE", "OP_PUSHDATA", "OP_DATA") if a_ not in asm.NAME2OP and a_ not in asm.ALIASES]
        if alias_bad:
            j4 = r.randrange(len(good) + 1)
            yield {"k": "text", "text": " ".join(good[:j4] + [r.choice(alias_bad)] + good[j4:]), "expect": "reject", "invisible": True}
        inv = r.choice(["\ufeff", "\u200b", "\u2060", "\u00ad", "\x00", "\u200d"])
        g0 = r.choice(good)
        bad2 = r.choice([inv, inv + g0, g0 + inv, g0[: len(g0) // 2] + inv + g0[len(g0) // 2 :]])
        j2 = [0, len(good), r.randrange(len(good) + 1)][i % 3]
        yield {"k": "text", "text": " ".join(good[:j2] + [bad2] + good[j2:]), "expect": "reject", "invisible": True}


def judge(ctx, case):
    if case["k"] == "text":
        text = case["text"]
        ref = asm.parse(text)
        r = ctx.call({"op": "asm_parse", "text": text})
        ctx.ev()
        if case.get("invisible"):
            ctx.hit("invisible_character")
        if case.get("prefixless"):
            ctx.hit("opcode_name_without_prefix")
        if ref is None:
            ctx.hit("reject_case")
            ctx.nontrivial()
            if "ok" in r:
                ctx.viol("ASM text with a token that is neither an opcode name, a numeric alias nor even-length hex is accepted", {"text": text, "bytes": r["ok"]["bytes"][:100]})
        else:
            ctx.hit("accept_case")
            ctx.nontrivial()
            if "ok" not in r:
                ctx.viol("ASM text made of opcode names / aliases / even-length hex is rejected", {"text": text, "resp": str(r.get("err", r.get("panic")))[:200]})
            elif r["ok"]["bytes"] != wire.detok(ref).hex():
                ctx.viol("ASM text parses to different bytes than the reference", {"text": text, "got": r["ok"]["bytes"][:100], "exp": wire.detok(ref).hex()[:100]})
        return
    raw = bytes.fromhex(case["hex"])
    toks = wire.tokenize(raw)
    tag = case["tag"]
    ctx.hit(tag)
    structured = any(t[0] != "op" or t[1] in (99, 100) for t in toks)
    if structured:
        ctx.nontrivial()
    if any(t[0] == "op" and t[1] in (99, 100) for t in toks):
        ctx.hit("conditional")
    if any(t[0] != "op" and len(t[-1]) >= 65536 for t in toks):
        ctx.hit("push>=65536")
    digit = [t for t in toks if t[0] == "push" and all(c in "0123456789" for c in t[1].hex())]
    if digit:
        ctx.hit("digit_push")
    big = len(raw) > 20000
    r = ctx.call({"op": "asm", "hex": case["hex"], "no_text": False})
    if "err" in r and case.get("may_reject"):
        ctx.hit("structural_rejected_by_parser")
        return
    if "ok" not in r:
        ctx.ev()
        ctx.viol("script from the accepted grammar could not be rendered", {"hex": case["hex"][:200], "resp": str(r)[:200]})
        return
    o = r["ok"]
    # 1. rendering itself
    exp_asm = " ".join(asm.render(toks, False))
    ctx.ev()
    alias_collision = [t for t in toks if t[0] == "push" and len(t[1]) == 1 and 0x10 <= t[1][0] <= 0x16]
    if o["asm"] != exp_asm:
        ctx.viol("to_asm_string differs from the reference rendering", {"hex": case["hex"][:200], "got": o["asm"][:200], "exp": exp_asm[:200]})
    if o.get("impl_eq") is False:
        ctx.viol("to_asm_string_impl differs from to_asm_string / to_extended_asm_string", {"hex": case["hex"][:200]})
    # 2. round trip
    ctx.ev()
    rt = o["rt"]
    if rt.get("ok") != case["hex"]:
        if alias_collision and "ok" in rt and rt["ok"] == wire.detok([("op", 80 + int(t[1].hex())) if t in alias_collision else t for t in toks]).hex():
            ctx.viol("one-byte push 0x10..0x16 renders as the text of a numeric alias and re-parses as OP_10..OP_16", {"hex": case["hex"][:100], "asm": o["asm"][:100]})
        else:
            ctx.viol("from_asm_string(to_asm_string(script)) does not reproduce the script bytes", {"hex": case["hex"][:200], "asm": o["asm"][:200], "rt": str(rt)[:200]})
    # 3. extended rendering, token by token
    ctx.ev()
    ctx.hit("xasm")
    if o["xasm"].split() != asm.render(toks, True):
        ctx.viol("extended ASM rendering differs from the reference (push opcode / length / data)", {"hex": case["hex"][:200], "got": o["xasm"][:200], "exp": " ".join(asm.render(toks, True))[:200]})
    # 4. whitespace perturbation of the library's own rendering
    if "ws_seed" in case and not alias_collision and rt.get("ok") == case["hex"]:
        import random

        rnd = random.Random(case["ws_seed"])
        words = o["asm"].split(" ")
        if words and words != [""]:
            for _ in range(2 if not big else 1):
                text = rnd.choice(["", " ", "\n ", "  "]) + "".join(w + rnd.choice(SEPS) for w in words[:-1]) + words[-1] + rnd.choice(["", " ", " \n", "  ", " \r\n"])
                p = ctx.call({"op": "asm_parse", "text": text})
                ctx.ev()
                ctx.hit("ws")
                if p.get("ok", {}).get("bytes") != case["hex"]:
                    sep_kinds = sorted(set(s for s in SEPS if s in text and s.strip(" ") != ""))
                    ctx.viol("inter-token whitespace changes the parse", {"text": text[:300], "got": str(p.get("ok", {}).get("bytes", p.get("err")))[:200], "exp": case["hex"][:200], "separators": [repr(s) for s in sep_kinds]})
