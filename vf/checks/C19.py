"""C19 — script templates match what they describe; criteria select the right indices."""
import zlib

from .. import gen
from ..ref import asm, ec, hashes, template, wire

ID = "C19"
RULE = (
    "cases: (script, template) pairs over every template token kind: exact opcodes, exact data (push opcode included), OP_DATA, OP_DATA{=,>,<,>=,<=}N for N in {0,1,20,75,76,255,256} with "
    "push lengths N-1,N,N+1, OP_SIG / OP_PUBKEY / OP_PUBKEYHASH against valid and invalid signatures / keys / hashes from the reference; near-miss templates (one token changed, one token "
    "more or fewer); self-templates of minimally-pushed conditional-free scripts (exhaustive over <=2-token scripts from a push/opcode alphabet); match criteria over transactions with 0..6 "
    "inputs/outputs, all 16 present/absent combinations of template/exact/min/max with values at bound-1, bound, bound+1, 0, 2^64-1. non-trivial = every distinct case with a non-empty script or template"
)
ASSUMPTIONS = [
    "reference matcher vf/ref/template.py; scripts with conditionals are outside the quantifier (one element = one top-level token)",
    "no claim: OP_0 against data tokens; PUSHDATA-encoded signatures/keys; signature encodings on which strict parsers differ; inputs without a recorded value under max-only criteria",
]
NSHARDS = {"quick": 32, "thorough": 64}
BUDGET_S = {"quick": 200, "thorough": 1800}
MIN_HITS = {
    'quick': {"pair": 5025, "len_constraint": 90, "sig_token": 160, "pubkey_token": 160, "pkh_token": 176, "self": 16852, "criteria": 10240, "expect_match": 2232, "expect_nomatch": 2707},
    'thorough': {"pair": 678283, "len_constraint": 108, "mixed": 115194, "sig_token": 30720, "pubkey_token": 30720, "pkh_token": 30720, "self": 80192, "criteria": 1536000},
}
PSEUDO = {251, 252, 253, 254}
OPC = [c for c in wire.PLAIN_OPCODES if c not in PSEUDO]


def selftest():
    ec.selftest()


def rnd_sig(r, valid=True):
    x = r.randrange(1, ec.N)
    sg = ec.sign_det(x, hashes.sha256(gen.rbytes(r, 8)))
    d = ec.der_encode(sg[0], sg[1])
    if valid:
        return d + (bytes([r.choice(sorted(template.FLAGS))]) if r.random() < 0.7 else b"")
    k = r.randrange(5)
    if k == 0:
        return gen.rbytes(r, r.choice([8, 40, 71]))
    if k == 1:
        return d[: r.randrange(1, len(d) - 1)]
    if k == 2:
        return d + bytes([r.choice([0x04, 0x44, 0xFF])])
    if k == 3:
        return b"\x30\x06\x02\x01\x00\x02\x01\x01"
    return d + bytes([0x41, 0x41])


def rnd_pub(r, valid=True):
    Q = ec.mul_g(r.randrange(1, ec.N))
    if valid:
        return ec.ser(Q, r.random() < 0.5)
    k = r.randrange(4)
    if k == 0:
        while True:
            xx = r.randrange(ec.P)
            if ec.lift_x(xx, False) is None:
                return bytes([2]) + xx.to_bytes(32, "big")
    if k == 1:
        return ec.ser(Q, True)[:-1]
    if k == 2:
        return b"\x05" + ec.ser(Q, True)[1:] if False else b"\x08" + ec.ser(Q, True)[1:]
    return b"\x04" + gen.rbytes(r, 64)


def cases(ctx):
    r = ctx.rnd
    S, N = ctx.shard, ctx.nshards
    t = ctx.tier == "thorough"
    k = 0
    # length-constrained data tokens: all five operators x N x push lengths around N
    for sym, _ in template.OPS:
        for n in (0, 1, 20, 75, 76, 255, 256):
            for L in (n - 1, n, n + 1):
                if L < 1:
                    continue
                for minimal in (True, False):
                    k += 1
                    if k % N != S:
                        continue
                    tok = gen.push_tok(r, L, minimal)
                    pre = [("op", r.choice(OPC))] if r.random() < 0.5 else []
                    yield {"k": "pair", "script": wire.detok(pre + [tok]).hex(), "tmpl": " ".join([wire.OPNAMES[p[1]] if p[1] else "OP_0" for p in pre] + ["OP_DATA%s%d" % (sym, n)]), "tag": "len_constraint"}
    # the EMPTY push in its three explicit forms (4c00, 4d0000, 4e00000000) against every operator with bounds 0 and 1
    for sym, _ in template.OPS:
        for n in (0, 1):
            for code, w in ((76, 1), (77, 2), (78, 4)):
                k += 1
                if k % N != S:
                    continue
                sc = bytes([code]) + (0).to_bytes(w, "little")
                yield {"k": "pair", "script": sc.hex(), "tmpl": "OP_DATA%s%d" % (sym, n), "tag": "len_constraint_empty_push"}
                yield {"k": "pair", "script": (b"\x76" + sc).hex(), "tmpl": "OP_DUP OP_DATA%s%d" % (sym, n), "tag": "len_constraint_empty_push"}
    if S == 0:
        ctx.exhaustive.append("five comparison operators x N in {0,1,20,75,76,255,256} x push lengths N-1,N,N+1 x {minimal, non-minimal push form}")
    # typed tokens
    for i in range(800 if t else 10):
        valid = r.random() < 0.5
        for kind, tokname, data in (("sig_token", "OP_SIG", rnd_sig(r, valid)), ("pubkey_token", "OP_PUBKEY", rnd_pub(r, valid)), ("pkh_token", "OP_PUBKEYHASH", gen.rbytes(r, 20 if valid else r.choice([19, 21, 1, 32])))):
            if not 1 <= len(data) <= 75:
                continue
            yield {"k": "pair", "script": wire.detok([("push", data), ("op", 0xAC)]).hex(), "tmpl": "%s OP_CHECKSIG" % tokname, "tag": kind}
        # the standard p2pkh unlock+lock shape with extraction order (below)
        pass
    # 20-byte pushes of every "special" content are public-key hashes too
    for hi, h20 in enumerate((bytes(20), b"\xff" * 20, bytes(19) + b"\x01", b"\x01" + bytes(19), b"\x80" + bytes(19))):
        if hi % N == S % 5 or t:
            yield {"k": "pair", "script": wire.detok([("op", 0x76), ("op", 0xA9), ("push", h20), ("op", 0x88), ("op", 0xAC)]).hex(), "tmpl": "OP_DUP OP_HASH160 OP_PUBKEYHASH OP_EQUALVERIFY OP_CHECKSIG", "tag": "pkh_token"}
    # public-key pushes with every possible tag byte in front of VALID coordinates: only 02/03 (33 bytes, right parity) and 04 (65 bytes)
    # decode as keys; the hybrid tags 06/07 and everything else do not
    Qk = ec.mul_g(r.randrange(1, ec.N))
    xb, yb = Qk[0].to_bytes(32, "big"), Qk[1].to_bytes(32, "big")
    for tag in list(range(0, 12)) + [0x80, 0xFF]:
        for body in (xb, xb + yb):
            if (tag * 2 + len(body)) % N != S % 7 and not t:
                if tag not in (6, 7):
                    continue
            data = bytes([tag]) + body
            yield {"k": "pair", "script": wire.detok([("push", data), ("op", 0xAC)]).hex(), "tmpl": "OP_PUBKEY OP_CHECKSIG", "tag": "pubkey_tag_sweep"}
    # signatures of EVERY encoded size: r and s each with a DER integer length of 1..33 bytes (33 = top bit set, leading zero),
    # with and without a trailing flag byte: pushes of 8..73 bytes
    def der_int_of_len(D):
        if D == 33:
            return r.randrange(2**255, ec.N)
        if D == 1:
            return r.randrange(1, 128)
        return r.randrange(2 ** (8 * (D - 1) - 1), 2 ** (8 * D - 1))

    kk = 0
    for Lr in range(1, 34):
        for Ls in range(1, 34):
            kk += 1
            if kk % N != S:
                continue
            d = ec.der_encode(der_int_of_len(Lr), der_int_of_len(Ls))
            for data in (d, d + bytes([r.choice(sorted(template.FLAGS))])):
                if len(data) <= 75:
                    yield {"k": "pair", "script": wire.detok([("push", data), ("op", 0xAC)]).hex(), "tmpl": "OP_SIG OP_CHECKSIG", "tag": "sig_size_grid"}
    for i in range(800 if t else 10):
        # the standard p2pkh unlock+lock shape with extraction order
        sig, pub, pkh = rnd_sig(r, True), rnd_pub(r, True), gen.rbytes(r, 20)
        if len(sig) <= 75:
            sc = wire.detok([("push", sig), ("push", pub), ("op", 0x76), ("op", 0xA9), ("push", pkh), ("op", 0x88), ("op", 0xAC), ("op", 0x6A), gen.push_tok(r, r.choice([1, 80, 300]), True)])
            yield {"k": "pair", "script": sc.hex(), "tmpl": "OP_SIG OP_PUBKEY OP_DUP OP_HASH160 OP_PUBKEYHASH OP_EQUALVERIFY OP_CHECKSIG OP_RETURN OP_DATA", "tag": "extract_order"}
    # random scripts vs exact / near-miss templates
    for i in range(3000 if t else 40):
        toks = gen.gen_tokens(r, r.choice([1, 2, 3, 5, 8]), depth=0, minimal=r.random() < 0.7, opcodes=OPC, push_lens=[1, 2, 3, 20, 33, 75, 76, 255, 256], p_if=0)
        toks = [t_ for t_ in toks if not (t_[0] == "pd" and not t_[2])]
        if not toks:
            continue
        words = asm.render(toks)
        tw = list(words)
        for j, t_ in enumerate(toks):
            x = r.random()
            if t_[0] != "op" and x < 0.3:
                tw[j] = "OP_DATA"
            elif t_[0] != "op" and x < 0.5:
                tw[j] = "OP_DATA%s%d" % (r.choice([s for s, _ in template.OPS]), len(t_[-1]) + r.choice([-1, 0, 1]))
        yield {"k": "pair", "script": wire.detok(toks).hex(), "tmpl": " ".join(tw), "tag": "mixed"}
        # near misses
        j = r.randrange(len(toks))
        nm = list(tw)
        nm[j] = r.choice(["OP_NOP", "OP_DATA=3", "OP_SIG", "ff", "OP_PUBKEYHASH", "OP_DUP"])
        yield {"k": "pair", "script": wire.detok(toks).hex(), "tmpl": " ".join(nm), "tag": "near_miss"}
        yield {"k": "pair", "script": wire.detok(toks).hex(), "tmpl": " ".join(tw + ["OP_DATA"]), "tag": "near_miss"}
        if len(tw) > 1:
            yield {"k": "pair", "script": wire.detok(toks).hex(), "tmpl": " ".join(tw[:-1]), "tag": "near_miss"}
        # non-minimal pushes vs exact data tokens (push opcode matters)
        yield {"k": "pair", "script": wire.detok([gen.push_tok(r, len(t_[-1]), False) if t_[0] != "op" and len(t_[-1]) > 0 else t_ for t_ in toks]).hex(), "tmpl": " ".join(words), "tag": "nonminimal_vs_exact"}
    # self templates: exhaustive over <=2 tokens from an alphabet
    A = [("op", c) for c in OPC] + [("push", bytes([v])) for v in range(256)] + [("push", b"\x12\x34"), ("push", b"\x10\x16"), ("push", bytes(75)), ("pd", 76, bytes([7] * 76)), ("pd", 77, bytes([9] * 256))]
    yield {"k": "self", "script": ""} if S == 0 else {"k": "self", "script": "51"}
    for a in A:
        k += 1
        if k % N == S:
            yield {"k": "self", "script": wire.detok([a]).hex()}
    step = 1 if t else 4
    for ia, a in enumerate(A):
        for ib, b in enumerate(A):
            k += 1
            if k % N == S and (ia + ib) % step == 0:
                yield {"k": "self", "script": wire.detok([a, b]).hex()}
    if S == 0:
        ctx.exhaustive.append("self-template of every script of <=2 tokens over a %d-token alphabet%s" % (len(A), "" if t else " (every 4th pair in quick)"))
    # criteria
    for i in range(2500 if t else 40):
        ni, no = r.randrange(0, 7), r.randrange(0, 7)
        pk = gen.rbytes(r, 20)
        p2pkh = b"\x76\xa9\x14" + pk + b"\x88\xac"
        bound = r.choice([0, 1, 1000, 2**32, 2**63, 2**64 - 2])
        vals = [v for v in (bound - 1, bound, bound + 1, 0, 2**64 - 1, r.getrandbits(64)) if 0 <= v < 2**64]
        outs = [{"value": r.choice(vals), "script": r.choice([p2pkh, p2pkh, b"\x6a", b"", b"\x76\xa9\x14" + gen.rbytes(r, 20) + b"\x88\xac", wire.detok([("push", gen.rbytes(r, 33)), ("op", 0xAC)])])} for _ in range(no)]
        ins = [gen.gen_txin(r, script=wire.detok([("push", gen.rbytes(r, r.choice([5, 71]))), ("push", gen.rbytes(r, 33))]) if r.random() < 0.7 else b"\x51") for _ in range(ni)]
        # unsigned inputs: EMPTY unlocking script; what the template sees is then the recorded locking script alone
        for j_ in range(ni):
            if r.random() < 0.3:
                ins[j_]["script"] = b""
        tx = {"version": 1, "ins": ins, "outs": outs, "locktime": 0}
        ext = [({"satoshis": r.choice(vals)} if r.random() < 0.75 else None) for _ in range(ni)]
        for j_, e in enumerate(ext):
            if e is not None and (r.random() < 0.4 or not ins[j_]["script"]):
                e["locking"] = r.choice([p2pkh, p2pkh, b"\x6a"]).hex()
        api_inputs = None
        if ni and i % 3 == 0:
            # one input is re-created through TxIn::new on the NULL outpoint but with an ordinary (non-coinbase) script
            j_ = r.randrange(ni)
            api_inputs = {str(j_): {"txid": "00" * 32, "vout": 0xFFFFFFFF, "script": ins[j_]["script"].hex(), "seq": ins[j_]["seq"]}}
        for mask in range(16):
            c = {"k": "criteria", "tx": wire.tx_encode(tx).hex(), "ext": ext}
            if api_inputs:
                c["api_inputs"] = api_inputs
            if mask & 1:
                c["tmpl"] = r.choice(["" if i % 4 == 2 else "OP_RETURN", "OP_DUP OP_HASH160 OP_PUBKEYHASH OP_EQUALVERIFY OP_CHECKSIG", "OP_DUP OP_HASH160 %s OP_EQUALVERIFY OP_CHECKSIG" % pk.hex(), "OP_DATA OP_DATA=33", "OP_RETURN", "OP_DATA OP_DATA=33 OP_DUP OP_HASH160 OP_PUBKEYHASH OP_EQUALVERIFY OP_CHECKSIG"])
            if mask & 2:
                c["exact"] = 0 if r.random() < 0.25 else r.choice(vals)
            if mask & 4:
                c["min"] = 0 if r.random() < 0.25 else r.choice(vals)
            if mask & 8:
                c["max"] = r.choice(vals)
            c["order"] = r.sample(["tmpl", "exact", "min", "max"], 4)
            yield c


def judge(ctx, case):
    k = case["k"]
    if k == "pair":
        raw = bytes.fromhex(case["script"])
        toks = wire.tokenize(raw)
        tm = template.parse_template(case["tmpl"])
        ctx.hit("pair")
        ctx.hit(case["tag"])
        ctx.nontrivial()
        if tm is None:
            return
        # guards
        if any(t[0] == "op" and t[1] == 0 for t in toks) and any(m[0] in ("any", "len") for m in tm):
            ctx.note("OP_0 vs data token: no claim")
            return
        if any(m[0] in ("sig", "pubkey", "pkh") and t[0] == "pd" for t, m in zip(toks, tm)) and len(toks) == len(tm):
            ctx.note("typed token vs PUSHDATA-encoded element: no claim")
            return
        exp = template.match(toks, tm)
        vi = zlib.crc32((case["script"] + case["tmpl"]).encode()) % 3 == 0
        if vi:
            ctx.hit("template_via_impl")
        r = ctx.call({"op": "template", "script": case["script"], "tmpl": case["tmpl"], "via_impl": vi})
        ctx.ev()
        if "ok" not in r or "matches" not in r["ok"]:
            ctx.viol("template could not be parsed or applied", {"tmpl": case["tmpl"], "resp": str(r)[:200]})
            return
        got = r["ok"]["matches"]
        is_m = r["ok"]["is_match"].get("ok")
        kinds = sorted(set(m[0] for m in tm))
        if exp is None:
            ctx.hit("expect_nomatch")
            if "ok" in got or is_m is True:
                ctx.viol("script matches a template it does not satisfy (token kinds %s, %s)" % (",".join(kinds), case["tag"]), {"script": case["script"][:200], "tmpl": case["tmpl"][:200]})
        else:
            ctx.hit("expect_match")
            if "ok" not in got or is_m is not True:
                ctx.viol("script does not match a template it satisfies (token kinds %s, %s)" % (",".join(kinds), case["tag"]), {"script": case["script"][:200], "tmpl": case["tmpl"][:200], "resp": str(got)[:200]})
            elif got["ok"] != [[a, b.hex()] for a, b in exp]:
                ctx.viol("extracted values differ from the matched pushes in script order", {"got": str(got["ok"])[:300], "exp": str([[a, b.hex()] for a, b in exp])[:300]})
    elif k == "self":
        raw = bytes.fromhex(case["script"])
        toks = wire.tokenize(raw)
        ctx.hit("self")
        if raw:
            ctx.nontrivial()
        if any(t[0] == "op" and t[1] in PSEUDO for t in toks):
            return
        r = ctx.call({"op": "template", "script": case["script"], "tmpl_script": case["script"]})
        ctx.ev()
        ok = "ok" in r and r["ok"].get("is_match", {}).get("ok") is True and "ok" in r["ok"].get("matches", {})
        if not ok:
            alias = [t for t in toks if t[0] == "push" and len(t[1]) == 1 and 0x10 <= t[1][0] <= 0x16]
            if alias:
                ctx.viol("one-byte push 0x10..0x16 renders as the text of a numeric alias: script does not match its own template", {"script": case["script"]})
            elif not raw:
                ctx.viol("the empty script does not match the template derived from itself", {"resp": str(r)[:200]})
            else:
                low = [t for t in toks if t[0] == "push" and len(t[1]) == 1 and t[1][0] <= 0x09]
                ctx.viol("minimally-pushed conditional-free script does not match the template derived from itself%s" % (" (one-byte push 0x00..0x09 read as a decimal alias)" if low else ""), {"script": case["script"][:200], "resp": str(r)[:300]})
    elif k == "criteria":
        tx = wire.tx_decode(bytes.fromhex(case["tx"]))
        ctx.hit("criteria")
        ctx.nontrivial()
        tm = ([] if case["tmpl"] == "" else template.parse_template(case["tmpl"])) if "tmpl" in case else None
        if case.get("tmpl") == "":
            ctx.hit("empty_template_in_criteria")
        ex, mn, mx = case.get("exact"), case.get("min"), case.get("max")
        ctx.hit("criteria_mask_%d" % ((1 if tm else 0) | (2 if ex is not None else 0) | (4 if mn is not None else 0) | (8 if mx is not None else 0)))
        req = {"op": "criteria", "tx": case["tx"], "ext": case["ext"], "order": case.get("order", ["tmpl", "exact", "min", "max"])}
        for f in ("tmpl", "exact", "min", "max", "api_inputs"):
            if f in case:
                req[f] = case[f]
        if "api_inputs" in case:
            ctx.hit("ordinary_script_on_null_outpoint")
        r = ctx.call(req)
        ctx.ev()
        if "ok" not in r:
            ctx.viol("criteria selection could not be executed", {"resp": str(r)[:200]})
            return
        o = r["ok"]
        exp_out = [i for i, out in enumerate(tx["outs"]) if (tm is None or template.match(wire.tokenize(out["script"]), tm) is not None) and template.value_ok(out["value"], ex, mn, mx)]
        if o["outputs"].get("ok") != exp_out:
            ctx.viol("match_outputs returns the wrong indices (criteria fields present: %s)" % crit_names(case), {"got": str(o["outputs"])[:100], "exp": exp_out, "values": [x["value"] for x in tx["outs"]], "exact": ex, "min": mn, "max": mx})
        if o["output"].get("ok", "x") != (exp_out[0] if exp_out else None):
            ctx.viol("match_output does not return the first matching index", {"got": str(o["output"])[:100], "exp": exp_out[:1]})
        # inputs. An input WITHOUT a recorded value cannot satisfy an exact or a minimum bound (unknown is not zero); under a
        # max-only bound there is no claim for that input (it is left out of the comparison).
        exts = case["ext"]
        exp_in = []
        unknown = set()
        for i, (inp, e) in enumerate(zip(tx["ins"], exts)):
            sc = inp["script"] + (bytes.fromhex(e["locking"]) if e and "locking" in e else b"")
            v = e["satoshis"] if e and "satoshis" in e else None
            script_ok = tm is None or template.match(wire.tokenize(sc), tm) is not None
            if not inp["script"] and e and "locking" in e and tm is not None:
                ctx.hit("unsigned_input_with_recorded_locking_script")
            if v is None:
                if ex is not None or mn is not None:
                    ctx.hit("input_without_value_under_exact_or_min")
                    if (ex == 0 and ex is not None) or (mn == 0 and mn is not None):
                        ctx.hit("input_without_value_bound_zero")
                    continue  # not selected
                if mx is not None:
                    unknown.add(i)
                    continue
                if script_ok:
                    exp_in.append(i)
            elif script_ok and template.value_ok(v, ex, mn, mx):
                exp_in.append(i)
        ctx.ev()
        got_in = o["inputs"].get("ok")
        if unknown:
            ctx.note("inputs without a recorded value under max-only criteria: no claim for those inputs")
        if not isinstance(got_in, list) or [i for i in got_in if i not in unknown] != exp_in:
            ctx.viol("match_inputs returns the wrong indices (criteria fields present: %s%s)" % (crit_names(case), ", some inputs carry no recorded value" if any(e is None or "satoshis" not in e for e in exts) else ""), {"got": str(o["inputs"])[:100], "exp": exp_in, "ext": str(exts)[:300], "exact": ex, "min": mn, "max": mx})
        if unknown:
            return
        if o["input"].get("ok", "x") != (exp_in[0] if exp_in else None):
            ctx.viol("match_input does not return the first matching index", {"got": str(o["input"])[:100], "exp": exp_in[:1]})


def crit_names(case):
    return ",".join(f for f in ("tmpl", "exact", "min", "max") if f in case) or "none"
