"""Shared workload + oracle for C03 (FORKID flags) and C10 (legacy flags)."""
import hashlib

from .. import gen
from ..ref import ec, sighash, wire


def mk_subscript(r, kind):
    if kind == "empty":
        return b""
    if kind == "one":
        return b"\x51"
    if kind in (252, 253, 65535, 65536):
        n = kind
        # a valid script of exactly n bytes containing a code separator and pushes
        body = bytearray(b"\xab\x76\xa9")
        pay = n - len(body) - 3 - 1
        if pay >= 1:
            body += bytes([77]) + pay.to_bytes(2, "little") + bytes((7 * i + 1) & 0xFF for i in range(pay)) if pay <= 0xFFFF else b""
        while len(body) < n:
            body.append(0xAC)
        return bytes(body[:n])
    if kind == "after_return":
        # data-carrier style prefixes followed by ordinary script with separators
        return r.choice([b"\x6a", b"\x00\x6a", b"\x6a\x6a", b"\x51\x6a"]) + mk_subscript(r, "sep")
    if kind == "p2pkh":
        return b"\x76\xa9\x14" + gen.rbytes(r, 20) + b"\x88\xac"
    if kind == "sep":
        # code separators at top level, inside pass/fail branches, doubly nested, and 0xab inside push data
        toks = gen.gen_tokens(r, r.choice([3, 6, 12, 25]), depth=3, minimal=False, opcodes=[0xAB, 0xAB, 0xAC, 0x76, 0x51, 0x61, 0xAD], openers=(99, 100), p_if=0.25, p_push=0.2, push_lens=[1, 2, 5])
        toks = [(t[0], b"\xab" * len(t[1])) if t[0] == "push" and r.random() < 0.5 else t for t in toks]
        return wire.detok(toks)
    return gen.gen_script(r, r.choice([1, 3, 8, 20]), depth=3, minimal=False)


def gen_cases(ctx, flags, n_random, n_sign):
    r = ctx.rnd
    S, N = ctx.shard, ctx.nshards
    k = 0
    kinds = ["empty", "one", 252, 253, 65535, 65536, "p2pkh", "sep", "sep", "grammar", "grammar", "after_return"]
    # systematic: shapes x every index x every flag
    shapes = [(1, 0), (1, 1), (1, 2), (2, 1), (2, 2), (3, 1), (3, 3), (2, 5), (5, 2), (8, 8), (4, 0)]
    for ni, no in shapes:
        k += 1
        if k % N != S:
            continue
        tx = gen.gen_tx(r, ni, no, coinbase=False, script_kw={"n_tokens": r.choice([0, 2, 5])})
        for i in tx["ins"]:
            i["seq"] = r.choice([0x01020304, 0xFFFFFFFE, 0, 0xA1B2C3D4, 0xFFFFFFFF, r.getrandbits(32)])
        raw = wire.tx_encode(tx).hex()
        for idx in range(ni):
            sub = mk_subscript(r, r.choice(kinds))
            val = gen.u64(r)
            for f in flags:
                yield {"k": "pre", "tx": raw, "flag": f, "idx": idx, "script": sub.hex(), "value": val}
    # many inputs (compact-size boundary in the count)
    for ni in (253, 300):
        k += 1
        if k % N != S:
            continue
        tx = gen.gen_tx(r, ni, 3, coinbase=False, script_kw={"n_tokens": 1, "push_lens": [1, 2]})
        raw = wire.tx_encode(tx).hex()
        for idx in (0, 1, 2, 3, 252, ni - 1):
            for f in flags:
                yield {"k": "pre", "tx": raw, "flag": f, "idx": idx, "script": mk_subscript(r, "sep").hex(), "value": gen.u64(r)}
    # subscript length classes
    for kind in kinds:
        k += 1
        if k % N != S:
            continue
        tx = gen.gen_tx(r, 2, 2, coinbase=False, script_kw={"n_tokens": 2})
        raw = wire.tx_encode(tx).hex()
        for f in flags:
            yield {"k": "pre", "tx": raw, "flag": f, "idx": 1, "script": mk_subscript(r, kind).hex(), "value": gen.u64(r)}
    # transactions with null-outpoint (coinbase-style) inputs: alone (the transaction then counts as a coinbase) or next to ordinary inputs
    for t_i in range(6):
        k += 1
        if k % N != S:
            continue
        ni = [1, 1, 2, 3, 1, 2][t_i]
        no = r.choice([1, 2, 3])
        tx = gen.gen_tx(r, ni, max(no, ni), coinbase=True, script_kw={"n_tokens": 1})
        if t_i >= 4:
            # null txid but ordinary index, and ordinary txid with index 0xffffffff (NOT coinbase inputs)
            tx["ins"][0]["vout"] = r.choice([0, 0xFFFFFFFE])
            tx["ins"][0]["script"] = b"\x51"
        raw = wire.tx_encode(tx).hex()
        for idx in range(ni):
            for f in flags:
                yield {"k": "pre", "tx": raw, "flag": f, "idx": idx, "script": mk_subscript(r, r.choice(["p2pkh", "one", "sep"])).hex(), "value": gen.u64(r), "null_outpoint": True}
                # subscript = exactly one direct push (with and without separators around it): the shape a coinbase normalisation keys on
                sp = bytes([r.choice([1, 3, 4, 33, 75])])
                sp = sp + gen.rbytes(r, sp[0])
                yield {"k": "pre", "tx": raw, "flag": f, "idx": idx, "script": (sp if idx % 2 == 0 else b"\xab" + sp + b"\xab").hex(), "value": gen.u64(r), "null_outpoint": True}
        yield {"k": "sign", "tx": raw, "flag": r.choice(flags), "idx": 0, "script": mk_subscript(r, "p2pkh").hex(), "value": gen.u64(r), "key": "%064x" % r.randrange(1, ec.N), "compressed": True, "nonce": None, "ext": None, "null_outpoint": True}
    # twin inputs: the signed input has exact duplicates (same outpoint, sequence and script) elsewhere in the transaction, and the
    # subscript is empty / only code separators / equal to the twins' script (selection of "the signed input" by value instead of by position)
    for t_i in range(6):
        k += 1
        if k % N != S:
            continue
        ni = r.choice([2, 3, 5])
        tx = gen.gen_tx(r, ni, r.choice([1, 2, ni]), coinbase=False, script_kw={"n_tokens": r.choice([0, 0, 1])})
        idx = r.randrange(ni)
        if t_i % 2 == 0:
            tx["ins"][idx]["script"] = b""
        if t_i % 3 == 0:
            tx["ins"][idx]["seq"] = 0
        twins = r.sample([j for j in range(ni) if j != idx], r.randrange(1, ni))
        for j in twins:
            tx["ins"][j] = dict(tx["ins"][idx])
        raw = wire.tx_encode(tx).hex()
        for sub in (b"", b"\xab", b"\xab\xab", tx["ins"][idx]["script"], b"\x51"):
            for f in flags:
                yield {"k": "pre", "tx": raw, "flag": f, "idx": idx, "script": sub.hex(), "value": gen.u64(r), "twin": True}
    # code separators buried under many nested conditionals (in pass and in else branches)
    for d in (20, 99, 100, 101, 102, 128, 150, 255, 256, 300, 400):
        k += 1
        if k % N != S:
            continue
        tx = gen.gen_tx(r, 2, 2, coinbase=False, script_kw={"n_tokens": 1})
        raw = wire.tx_encode(tx).hex()
        subs = [b"\x63" * d + b"\xab\x51\xab" + b"\x68" * d, b"\x63" * d + b"\x51" + b"\x67\xab\x68" * d, (b"\x51\x63\x67") * d + b"\xab\xac" + b"\x68" * d]
        for sub in subs:
            for f in (flags if d in (100, 101) else flags[:2]):
                yield {"k": "pre", "tx": raw, "flag": f, "idx": 1, "script": sub.hex(), "value": gen.u64(r), "deep_sep": d}
    # code separators inside conditionals opened by EACH of the four openers (the parser folds all four into a block), in the pass and in
    # the else branch, one and two levels deep
    for oi, opn in enumerate((0x63, 0x64, 0x65, 0x66)):
        k += 1
        if k % N != S:
            continue
        tx = gen.gen_tx(r, 2, 2, coinbase=False, script_kw={"n_tokens": 1})
        raw = wire.tx_encode(tx).hex()
        o2 = (0x63, 0x64, 0x65, 0x66)[(oi + 1) % 4]
        subs = [b"\x51" + bytes([opn]) + b"\xab\x52\x68\xac", b"\x51" + bytes([opn]) + b"\x52\x67\xab\x53\x68\xac", b"\x51" + bytes([opn, o2]) + b"\xab\x68\x67" + bytes([o2]) + b"\x67\xab\x68\x68\xab"]
        for sub in subs:
            for f in flags:
                yield {"k": "pre", "tx": raw, "flag": f, "idx": 0, "script": sub.hex(), "value": gen.u64(r), "deep_sep": 1}
    # random
    for _ in range(n_random):
        ni = r.choice([1, 1, 2, 3, 4, 6, 8])
        no = r.choice([0, 1, 1, 2, 3, 5, 8])
        tx = gen.gen_tx(r, ni, no, coinbase=False, script_kw={"n_tokens": r.choice([0, 1, 4]), "minimal": False})
        raw = wire.tx_encode(tx).hex()
        sub = mk_subscript(r, r.choice(kinds[:2] + kinds[6:])).hex()
        idx = r.randrange(ni)
        val = gen.u64(r)
        # sometimes the transaction object also carries the extended fields (recorded value / locking script of the spent outputs):
        # they are not arguments of the preimage and must not influence it
        ext = None
        if r.random() < 0.35:
            ext = [({"satoshis": gen.u64(r), "locking": mk_subscript(r, r.choice(["p2pkh", "sep", "one"])).hex()} if r.random() < 0.8 else None) for _ in range(ni)]
            if r.random() < 0.5:
                sub = ""
        for f in (flags if r.random() < 0.5 else [r.choice(flags)]):
            c_ = {"k": "pre", "tx": raw, "flag": f, "idx": idx, "script": sub, "value": val, "twice": r.random() < 0.3}
            if ext:
                c_["ext"] = ext
            yield c_
    keys = [1, 2, 3, (ec.N - 1) // 2, (ec.N + 1) // 2, ec.N - 2, ec.N - 1]
    for _ in range(n_sign):
        ni = r.choice([1, 2, 3])
        no = r.choice([1, 2, 3])
        tx = gen.gen_tx(r, ni, max(no, ni), coinbase=False, script_kw={"n_tokens": 1})
        key = r.choice(keys) if r.random() < 0.4 else r.randrange(1, ec.N)
        yield {
            "k": "sign",
            "tx": wire.tx_encode(tx).hex(),
            "flag": r.choice(flags),
            "idx": r.randrange(ni),
            "script": mk_subscript(r, r.choice(["p2pkh", "sep", "grammar"])).hex(),
            "value": gen.u64(r),
            "key": key.to_bytes(32, "big").hex(),
            "compressed": r.random() < 0.5,
            "nonce": (r.choice([1, 2, ec.N - 1]) if r.random() < 0.2 else r.randrange(1, ec.N)).to_bytes(32, "big").hex() if r.random() < 0.35 else None,
            "ext": ([{"satoshis": gen.u64(r), "locking": mk_subscript(r, "p2pkh").hex()} for _ in range(ni)] if r.random() < 0.4 else None),
        }


def judge(ctx, case, forkid):
    tx = wire.tx_decode(bytes.fromhex(case["tx"]))
    sub = bytes.fromhex(case["script"])
    idx, flag, val = case["idx"], case["flag"], case["value"]
    base = flag & 0x1F
    ctx.hit("flag_%02x" % flag)
    if idx >= 1:
        ctx.hit("idx>=1")
    if any(i["seq"] != int.from_bytes(i["seq"].to_bytes(4, "big"), "little") for i in tx["ins"]):
        ctx.hit("nonpalindromic_seq")
    if b"\xab" in sub:
        ctx.hit("subscript_has_ab_byte")
    if len(sub) >= 253:
        ctx.hit("subscript>=253")
    if len(sub) >= 65536:
        ctx.hit("subscript>=65536")
    if case.get("null_outpoint"):
        ctx.hit("null_outpoint_inputs")
    if case.get("twin"):
        ctx.hit("twin_inputs")
    if case.get("deep_sep"):
        ctx.hit("deeply_nested_code_separator")
    ctx.nontrivial()
    try:
        exp = sighash.preimage(tx, idx, sub, val, flag)
        oob = False
    except sighash.NoSingleOutput:
        exp, oob = None, True
        ctx.hit("single_without_output")
    name = "FORKID" if forkid else "legacy"
    if case["k"] == "pre":
        rq = {"op": "sighash", "tx": case["tx"], "flag": flag, "idx": idx, "script": case["script"], "value": val, "twice": case.get("twice", False)}
        if case.get("ext"):
            rq["ext"] = case["ext"]
            ctx.hit("with_extended_fields")
        r = ctx.call(rq)
        ctx.ev()
        if oob:
            if "err" in r:
                ctx.hit("single_oob_refused")
            elif "ok" in r:
                zero_form = sighash.bip143_single_oob_spec_form(tx, idx, sub, val, flag).hex() if forkid else None
                if r["ok"]["preimage"] != zero_form:
                    ctx.viol("%s SINGLE without matching output: returned a preimage that is not the specification's form" % name, {"case": "oob"})
            else:
                ctx.viol("%s SINGLE without matching output: neither error nor preimage" % name, {"resp": {x: r[x] for x in r if x in ("panic", "death", "alloc_guard")}})
            return
        if "ok" not in r:
            ctx.viol("%s preimage refused or crashed for valid arguments (flag class %s)" % (name, cls(flag)), {"resp": {x: r[x] for x in r if x in ("err", "panic", "death", "alloc_guard")}})
            return
        got = r["ok"]["preimage"]
        if got != exp.hex():
            ctx.viol("%s preimage differs from the specification: %s" % (name, diff_field(bytes.fromhex(got), exp, tx, idx, sub, flag, forkid)), {"got": got[:600], "expected": exp.hex()[:600]})
        if forkid and "hash_inputs_cold" in r["ok"]:
            # the public hashPrevouts accessor (also what fills the cache): zero under ANYONECANPAY, else sha256d of all outpoints
            ctx.ev()
            ctx.hit("hash_inputs_accessor")
            hp = exp[4:36].hex()
            for fld in ("hash_inputs_cold", "hash_inputs_warm"):
                if r["ok"][fld] != hp:
                    ctx.viol("Transaction::hash_inputs differs from the specification's hashPrevouts (%s object, flag class %s)" % (fld.split("_")[-1], cls(flag)), {"got": r["ok"][fld], "expected": hp})
        if "preimage2" in r["ok"]:
            ctx.ev()
            if r["ok"]["preimage2"] != got:
                ctx.viol("%s preimage changes when the same call is repeated on the same object" % name, {})
    else:
        sreq = {"op": "tx_sign", "tx": case["tx"], "flag": flag, "idx": idx, "script": case["script"], "value": val, "key": case["key"], "compressed": case["compressed"]}
        if case.get("nonce"):
            sreq["k"] = case["nonce"]
            ctx.hit("sign_with_k")
        if case.get("ext"):
            sreq["ext"] = case["ext"]
            ctx.hit("with_extended_fields")
        r = ctx.call(sreq)
        ctx.ev()
        ctx.hit("sign")
        if oob:
            if "ok" in r:
                ctx.viol("%s sign with SINGLE and no matching output produced a signature" % name, {})
            return
        if "ok" not in r:
            ctx.viol("%s signing refused or crashed for valid arguments" % name, {"resp": {x: r[x] for x in r if x in ("err", "panic", "death", "alloc_guard")}})
            return
        sb = bytes.fromhex(r["ok"]["sig"])
        x = int(case["key"], 16)
        Q = ec.mul_g(x)
        if r["ok"]["pub"] != ec.ser(Q, case["compressed"]).hex():
            ctx.viol("signing key's public key differs from the reference", {})
        if not sb or sb[-1] != flag:
            ctx.viol("%s signature's flag byte is not the requested one" % name, {"sig": sb.hex()})
            return
        rs = ec.der_parse_strict(sb[:-1])
        if rs is None:
            ctx.viol("%s signature is not strict DER" % name, {"sig": sb.hex()})
            return
        z = int.from_bytes(wire.sha256d(exp), "big")
        if not ec.verify(Q, z, rs[0], rs[1]):
            ctx.viol("%s signature does not verify against sha256d(specified preimage) under the signer's key" % name, {"sig": sb.hex()})
        if rs[1] > ec.HALF_N:
            ctx.viol("%s signature has high S" % name, {})
        if case.get("nonce"):
            e = ec.sign_with_k(x, z, int(case["nonce"], 16))
            if e is not None and (rs[0], rs[1]) != (e[0], e[1]):
                ctx.note("%s Transaction::sign_with_k signature differs from the reference signature for that nonce (informational: the statement only requires that it verifies)" % name)
        else:
            e = ec.sign_det(x, wire.sha256d(exp), wire.sha256d(exp)[::-1])
            if (rs[0], rs[1]) != (e[0], e[1]):
                ctx.note("%s Transaction::sign signature is not the RFC 6979 (reversed-nonce-digest) signature (informational: the statement only requires that it verifies)" % name)
        if not r["ok"]["verify"]:
            ctx.viol("%s Transaction::verify rejects the signature it just produced" % name, {})
        if "verify_plain" in r["ok"]:
            ctx.ev()
            ctx.hit("verify_plain_entry_point")
            if not r["ok"]["verify_plain"]:
                ctx.viol("%s Transaction::_verify (plain digest) rejects the signature just produced" % name, {})
            if r["ok"]["verify_reversed"]:
                ctx.note("%s Transaction::_verify with reversed digest accepts (informational)" % name)
        if not r["ok"]["sig_hex_eq"]:
            ctx.viol("SighashSignature::to_hex differs from to_bytes", {})


def cls(flag):
    return {1: "ALL", 2: "NONE", 3: "SINGLE"}[flag & 0x1F] + ("|ANYONECANPAY" if flag & 0x80 else "")


def diff_field(got, exp, tx, idx, sub, flag, forkid):
    """name the first field in which the two preimages differ (symptom class for the finding key)"""
    if forkid:
        ls = len(wire.cs_enc(len(sub))) + len(sub)
        fields = [("version", 4), ("hashPrevouts", 32), ("hashSequence", 32), ("outpoint", 36), ("subscript", ls), ("value", 8), ("sequence", 4), ("hashOutputs", 32), ("locktime", 4), ("type", 4)]
        if len(got) != len(exp):
            return "length (flag class %s)" % cls(flag)
        off = 0
        for n, w in fields:
            if got[off : off + w] != exp[off : off + w]:
                return "field %s (flag class %s)" % (n, cls(flag))
            off += w
        return "unknown"
    # legacy: decode both as transactions
    try:
        g = wire.tx_decode(got[:-4])
        e = wire.tx_decode(exp[:-4])
    except wire.Trunc:
        return "undecodable (flag class %s)" % cls(flag)
    if got[-4:] != exp[-4:]:
        return "type (flag class %s)" % cls(flag)
    if len(g["ins"]) != len(e["ins"]):
        return "input count (flag class %s)" % cls(flag)
    for a, b in zip(g["ins"], e["ins"]):
        if a["script"] != b["script"]:
            return "input script / code separators (flag class %s)" % cls(flag)
        if a["seq"] != b["seq"]:
            return "input sequence (flag class %s)" % cls(flag)
        if a != b:
            return "input outpoint (flag class %s)" % cls(flag)
    if len(g["outs"]) != len(e["outs"]):
        return "output count (flag class %s, index %s)" % (cls(flag), "0" if idx == 0 else ">=1")
    if g["outs"] != e["outs"]:
        return "outputs (flag class %s, index %s)" % (cls(flag), "0" if idx == 0 else ">=1")
    if g["version"] != e["version"] or g["locktime"] != e["locktime"]:
        return "version/locktime"
    return "unknown"
