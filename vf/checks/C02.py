"""C02 — script bytes survive parsing unchanged; pushes decoded/encoded exactly; truncated pushes / unclosed conditionals rejected."""
import itertools

from .. import gen
from ..ref import wire

ID = "C02"
RULE = (
    "cases: exhaustive 1-/2-byte scripts; every push form x boundary length x {complete, payload-1, empty payload, cut length field}; "
    "grammar scripts (all opcodes, all push forms incl. non-minimal, nested IF/NOTIF/VERIF/VERNOTIF..ELSE..ENDIF); byte-mutations of those; "
    "each also embedded as a transaction output script; push-prefix helper at every class boundary; encode_pushdata with real data. "
    "non-trivial = distinct case whose script has >=1 push or conditional (or is a helper case with len>75), judged against the reference tokenizer"
)
ASSUMPTIONS = [
    "reference tokenizer/nesting rule in vf/ref/wire.py is my reading of the script wire format",
    "no claim about which undefined opcode bytes are rejected; stray ELSE/ENDIF outside a conditional: no acceptance claim",
]
NSHARDS = {"quick": 32, "thorough": 64}
BUDGET_S = {"quick": 200, "thorough": 1500}
MIN_HITS = {
    'quick': {"exh2": 32768, "exh1": 128, "grammar_accepted": 4119, "trunc_case": 22658, "prefix": 51, "encode": 321, "tx_embed": 1354},
    'thorough': {"exh2": 39321, "exh1": 153, "grammar_accepted": 279235, "trunc_case": 507825, "prefix": 61, "encode": 388, "tx_embed": 102795},
}

LENS = [0, 1, 2, 74, 75, 76, 77, 254, 255, 256, 257, 65534, 65535, 65536, 65537]


def boundary_push_cases(big):
    """every push form x L x {complete, payload-1, payload 0, cut length field}, in leading/middle/trailing position"""
    out = []
    lens = LENS + ([1 << 20] if not big else [1 << 20, 1 << 24])
    for L in lens:
        forms = []
        if 1 <= L <= 75:
            forms.append(bytes([L]))
        if L <= 0xFF:
            forms.append(bytes([76, L]))
        if L <= 0xFFFF:
            forms.append(bytes([77]) + L.to_bytes(2, "little"))
        forms.append(bytes([78]) + L.to_bytes(4, "little"))
        for pre in forms:
            payload = bytes((i * 7 + 3) & 0xFF for i in range(L))
            variants = {"complete": pre + payload}
            if L >= 1:
                variants["minus1"] = pre + payload[:-1]
                variants["empty"] = pre
            if len(pre) > 2:
                variants["cutlen"] = pre[:-1]
            elif len(pre) == 2:
                variants["cutlen"] = pre[:1]
            for vn, body in variants.items():
                for pos, (a, z) in {"lead": (b"", b""), "mid": (b"\x51\x76", b""), "trail_ops": (b"\x51", b"\x52")}.items():
                    if pos == "trail_ops" and vn != "complete":
                        continue  # bytes after a short push are swallowed as payload; covered by 'mid'
                    c_ = {"k": "script", "hex": (a + body + z).hex(), "tag": "bpush:%s:%s" % (vn, pos)}
                    if vn == "complete":
                        c_["must_accept"] = True  # complete pushes of every form between plain opcodes are in the accepted grammar
                    out.append(c_)
    return out


def cases(ctx):
    r = ctx.rnd
    S, N = ctx.shard, ctx.nshards
    thorough = ctx.tier == "thorough"
    # exhaustive 1- and 2-byte scripts
    for v in range(S, 256, N):
        yield {"k": "script", "hex": "%02x" % v, "tag": "exh1"}
    for v in range(S, 65536, N):
        yield {"k": "script", "hex": "%04x" % v, "tag": "exh2"}
    if S == 0:
        ctx.exhaustive.append("all 256 one-byte scripts and all 65536 two-byte scripts")
    bp = boundary_push_cases(thorough)
    for c in bp[S::N]:
        yield c
        yield {"k": "tx_embed", "hex": c["hex"], "tag": c["tag"]}
        yield {"k": "txin_embed", "hex": c["hex"], "tag": c["tag"]}
    # exhaustive over short scripts from a structural alphabet (conditionals with several ELSE, stray ELSE/ENDIF, empty branches)
    SA = [0x63, 0x64, 0x67, 0x68, 0x51, 0x00]
    kk = 0
    for L in range(3, 7):
        for combo in itertools.product(SA, repeat=L):
            kk += 1
            if kk % N == S:
                yield {"k": "script", "hex": bytes(combo).hex(), "tag": "structural"}
    if S == 0:
        ctx.exhaustive.append("all scripts of length 3..6 over the structural alphabet {IF, NOTIF, ELSE, ENDIF, OP_1, OP_0}")
    # all 256 opcode bytes in leading / middle / trailing position of a small valid script
    for v in range(S, 256, N):
        for pos, sc in (("lead", bytes([v, 0x51, 0x52])), ("mid", bytes([0x51, v, 0x52])), ("trail", bytes([0x51, 0x52, v]))):
            yield {"k": "script", "hex": sc.hex(), "tag": "opbyte"}
    # the from_chunks / from_hex entry points: the same bytes cut at arbitrary offsets (also inside a push) must parse identically
    for i in range(300 if thorough else 24):
        toks = gen.gen_tokens(r, r.choice([2, 4, 8, 16]), depth=2, minimal=False, push_lens=[1, 2, 5, 20, 75, 76, 255, 256])
        b = wire.detok(toks)
        if not b:
            continue
        cuts = sorted(r.randrange(len(b) + 1) for _ in range(r.choice([1, 1, 2, 4])))
        yield {"k": "script", "hex": b.hex(), "tag": "via_chunks", "must_accept": True, "via": "chunks", "cuts": cuts}
        yield {"k": "script", "hex": b.hex(), "tag": "via_hex", "must_accept": True, "via": "hex"}
    # encode_pushdata for every one-byte payload value (the form must not depend on the value) and a few two-byte values
    for v in range(S, 256, N):
        yield {"k": "encode", "hex": "%02x" % v}
        yield {"k": "encode", "hex": "%02x%02x" % (v, (v * 7 + 1) & 0xFF)}
    # push-prefix helper and encode_pushdata
    pl = [1, 2, 74, 75, 76, 77, 254, 255, 256, 257, 65534, 65535, 65536, 65537, 65538, 1 << 20, (1 << 24) - 1, 1 << 24, (1 << 31) - 1, 1 << 31, (1 << 32) - 2, (1 << 32) - 1]
    pl += [r.randrange(1, 1 << 32) for _ in range(40)] + [r.randrange(1, 70000) for _ in range(40)]
    for L in pl[S::N]:
        yield {"k": "prefix", "len": L}
    # 2^31 (a length that no longer fits a signed 32-bit integer; ~8 GiB peak in the driver) is part of the quick tier; 2^32-1 thorough only
    el = [1, 2, 75, 76, 255, 256, 65535, 65536, 65537, 100000, 1 << 20, 1 << 31] + ([1 << 24, (1 << 24) + 1, (1 << 31) - 1, (1 << 32) - 1] if thorough else [])
    el += [r.randrange(1, 300) for _ in range(30)] + [r.randrange(1, 70000) for _ in range(10)]
    for i, L in enumerate(el):
        if i % N == S:
            yield {"k": "encode", "len": L, "seed": r.getrandbits(32)}
            if L <= 600:
                yield {"k": "encode", "hex": gen.rbytes(r, L).hex()}
    # deep nesting probes (each in a driver of its own: a native-stack abort must not take the workload down)
    depths = [1, 2, 10, 50, 100, 200, 500, 1000] + ([1500, 2000, 3000, 5000, 10000, 20000, 50000] if True else [])
    for i, d in enumerate(depths):
        if i % N == S:
            yield {"k": "nest", "depth": d, "else": False}
            yield {"k": "nest", "depth": d, "else": True}
    # the same towers with some of the closers missing (never-closed conditionals must be rejected at every depth)
    ud = [1, 2, 3, 10, 100, 1000, 1025, 2049, 2100, 3000, 4097, 5000, 8193, 10000]
    for i, d in enumerate(ud):
        if (i + 5) % N == S:
            for m in sorted(set([1, max(1, d // 2), max(1, d - 1024), max(1, d - 2048), max(1, d - 4096), d])):
                yield {"k": "nest", "depth": d, "else": bool(m & 1), "missing": m}
    # single pushes of log-spaced lengths (windows between the classic boundaries), minimal and non-minimal form, alone and inside a conditional
    for li, L in enumerate(sorted(set([75, 76, 255, 256, 520, 521] + [v for k_ in range(9, 18) for v in (2**k_ - 1, 2**k_, 2**k_ + 1, 3 * 2 ** (k_ - 1))] + [100000]))):
        if li % N != S:
            continue
        data = gen.rbytes(r, L)
        mp = wire.minimal_push(data)
        nm = b"\x4e" + L.to_bytes(4, "little") + data
        for sc in (mp, nm, b"\x63" + mp + b"\x67" + nm + b"\x68", b"\x6a" + mp + mp):
            yield {"k": "script", "hex": sc.hex(), "tag": "log_spaced_push_length", "must_accept": True}
        yield {"k": "encode", "hex": data.hex()} if L <= 70000 else {"k": "encode", "len": L, "seed": li}
    # never-closed conditionals BEHIND every kind of prefix (data-carrier prefixes, pushes, ordinary templates, closed blocks): the
    # prefix must not switch the nesting check off
    prefixes = [b"", b"\x00\x6a", b"\x6a", b"\x00", b"\x51\x6a", b"\x6a\x6a", b"\x00\x6a\x04abcd", b"\x76\xa9\x14" + bytes(20) + b"\x88\xac", b"\x63\x68", b"\x63\x67\x68", b"\x51\x63\x51\x68",
                b"\x4c\x01\x63", b"\x01\x63", b"\xab", b"\x6a\x4c\x02\x63\x68", b"\x00\x00", b"\x4f\x6a", b"\x00\x6a\x00\x6a"]
    tails = [b"\x63\x05\xaa", b"\x64\x14\x00\x00", b"\x63\x51\x67\x4b", b"\x63\x63\x68\x02\x01", b"\x63", b"\x64", b"\x65", b"\x66", b"\x63\x51", b"\x63\x67", b"\x63\x67\x51", b"\x63\x63\x68", b"\x63\x68\x63", b"\x64\x67\x67", b"\x63\x51\x67\x63\x68"]
    pi = 0
    for pre in prefixes:
        for tail in tails:
            pi += 1
            if pi % N == S:
                yield {"k": "script", "hex": (pre + tail).hex(), "tag": "unclosed_behind_prefix"}
                yield {"k": "tx_embed", "hex": (pre + tail).hex(), "tag": "unclosed_behind_prefix"}
                yield {"k": "txin_embed", "hex": (pre + tail).hex(), "tag": "unclosed_behind_prefix"}
    # a long series of REJECTED scripts (never-closed towers, over-declared pushes) on the driver's one worker thread, then well-formed
    # scripts: what was refused earlier must not change what is accepted later
    if S == 1 or (thorough and S == N // 2):
        yield {"k": "after_rejections", "n": 2500 if S == 1 else 12000, "depth": 1000}
    # every script of up to five bytes over {IF, 0x65, 0x66, ELSE, ENDIF, OP_1}: each opener at every position (top level, first
    # branch, else branch, nested), closed and never closed
    si = 0
    for L in range(1, 6):
        for tup in itertools.product((0x63, 0x65, 0x66, 0x67, 0x68, 0x51), repeat=L):
            si += 1
            if si % N == S:
                yield {"k": "script", "hex": bytes(tup).hex(), "tag": "structural_exhaustive"}
    # scripts that start 76 a9 14 and end 88 ac but are NOT the 25-byte P2PKH template (a template fast path must check the length)
    for fi, body in enumerate([bytes(19), bytes(21), b"", bytes(20) + b"\x88\xac\x76\xa9\x14" + bytes(20), bytes(20) + b"\x63", b"\x63" + bytes(19), bytes(20) + b"\x51\x51", bytes(18) + b"\x4c\x00",
                               bytes(20) + b"\x88\xac" + b"\x76\xa9\x14" + bytes(19), b"\x01" * 20, bytes(75)]):
        if fi % N == S % 11 or thorough:
            sc = b"\x76\xa9\x14" + body + b"\x88\xac"
            yield {"k": "script", "hex": sc.hex(), "tag": "p2pkh_like_frame"}
            yield {"k": "tx_embed", "hex": sc.hex(), "tag": "p2pkh_like_frame"}
            yield {"k": "txin_embed", "hex": sc.hex(), "tag": "p2pkh_like_frame"}
    # grammar scripts + mutations
    n = (5000 if thorough else 120)
    for i in range(n):
        minimal = r.random() < 0.4
        nt = r.choice([1, 2, 3, 5, 8, 13, 25, 60, 150])
        toks = gen.gen_tokens(r, nt, depth=r.choice([1, 3, 6, 12]), minimal=minimal, push_lens=gen.PUSH_LENS + (gen.BIG_PUSH_LENS if r.random() < 0.05 else []))
        b = wire.detok(toks)
        yield {"k": "script", "hex": b.hex(), "tag": "grammar", "must_accept": True}
        if i % 3 == 0:
            yield {"k": "tx_embed", "hex": b.hex(), "tag": "grammar", "must_accept": True}
            yield {"k": "txin_embed", "hex": b.hex(), "tag": "grammar", "must_accept": True}
        for _ in range(3):
            m = gen.mutate(r, b, r.choice([1, 1, 2, 3]))
            yield {"k": "script", "hex": m.hex(), "tag": "mutant"}
        if i % 5 == 0:
            yield {"k": "tx_embed", "hex": gen.mutate(r, b, 1).hex(), "tag": "mutant"}
            yield {"k": "txin_embed", "hex": gen.mutate(r, b, 1).hex(), "tag": "mutant"}
        # truncation at a random offset and right after every push header
        if b:
            cut = r.randrange(len(b))
            yield {"k": "script", "hex": b[:cut].hex(), "tag": "prefixcut"}
    # a few very large scripts (hundreds of KiB)
    if S < 4:
        big = wire.detok(gen.gen_tokens(r, 3000 if thorough else 800, depth=4, minimal=False, push_lens=[0, 1, 75, 76, 255, 256, 520, 4000]))
        yield {"k": "script", "hex": big.hex(), "tag": "grammar_big", "must_accept": True}
        yield {"k": "script", "hex": big[: len(big) - r.randrange(1, 200)].hex(), "tag": "grammar_big_cut"}
    # random bytes
    for _ in range(200 if thorough else 20):
        yield {"k": "script", "hex": gen.rbytes(r, r.randrange(1, 40)).hex(), "tag": "random"}


def extra_stages(tier, seed, res):
    """thorough only: libFuzzer finder on the parse/serialise fixed point; its artifacts and corpus are re-judged here against the reference tokenizer"""
    if tier != "thorough":
        return []
    from . import C09

    seeds = [b"\x00" + bytes.fromhex(x) for x in ("76a914" + "11" * 20 + "88ac", "6351675268", "4c0301020300", "63646868", "4d0300aabbcc")]
    return C09.fuzz_stage(__name__, tier, seed, "roundtrip", 120, lambda data, cls: ([{"k": "script", "hex": data[1:].hex(), "tag": "random"}] if data and data[0] & 1 == 0 else []), seeds=seeds, max_len=1024)


def lib_openers(ctx):
    """The opcodes the library ITSELF treats as opening a conditional block, learnt from four one/two-byte probes: IF and NOTIF
    always; 0x65 / 0x66 exactly when the library rejects the lone opcode and accepts opcode + ENDIF. Whatever that set is, it must
    be the same at every position of a script (top level, first branch, else branch, nested)."""
    got = getattr(ctx, "_c02_openers", None)
    if got is None:
        got = [99, 100]
        for op_ in (0x65, 0x66):
            a = ctx.call({"op": "script_decode", "hex": "%02x" % op_})
            b = ctx.call({"op": "script_decode", "hex": "%02x68" % op_})
            if "err" in a and "ok" in b:
                got.append(op_)
            elif not ("ok" in a and "ok" in b):
                got = None  # inconsistent probe: fall back to the two-reading rule
                break
        got = tuple(got) if got is not None else ()
        ctx._c02_openers = got
    return got


def is_unclosed(ctx, toks):
    ops = lib_openers(ctx)
    if ops:
        return wire.unclosed(toks, ops)
    return wire.unclosed(toks) and wire.unclosed(toks, (99, 100))


def judge_script(ctx, case, raw, lib_ok, lib_bytes, lib_tokens, via):
    """shared oracle for the direct and the embedded-in-transaction path; lib_ok None = neither accepted nor rejected (panic etc.)"""
    try:
        ref = wire.tokenize(raw)
        trunc = None
    except wire.ScriptTrunc as e:
        ref, trunc = None, e
    ctx.ev()
    if trunc is not None:
        ctx.hit("trunc_case")
        ctx.hit("trunc_%s" % trunc.kind)
        ctx.nontrivial()
        if lib_ok:
            flat = wire.lib_tokens_flat(lib_tokens) if lib_tokens is not None else None
            shortened = trunc.tokens + [("push", bytes(trunc.remaining))]
            if trunc.kind == "direct" and is_unclosed(ctx, shortened):
                # the tolerated short final push must not switch the nesting check off
                ctx.viol("unclosed_conditional accepted in a script that ends in a truncated direct push (via=%s)" % via, {"input": raw.hex()[:200]})
            elif trunc.kind == "direct" and flat in (None, shortened) and lib_bytes == wire.detok_lenient(shortened):
                ctx.viol("truncated_direct_push accepted: final push silently shortened to the bytes that remain (via=%s)" % via, {"input": raw.hex()[:200], "reserialised": lib_bytes.hex()[:200]})
            else:
                sym = "other"
                if trunc.kind == "pushdata":
                    w = {76: 1, 77: 2, 78: 4}[trunc.opcode]
                    padded = wire.detok(trunc.tokens) + bytes([trunc.opcode]) + trunc.declared.to_bytes(w, "little") + bytes(trunc.remaining) + b"\x00" * (trunc.declared - len(trunc.remaining))
                    if lib_bytes == padded:
                        sym = "zero_padded"
                ctx.viol("truncated_%s accepted symptom=%s (via=%s)" % (trunc.kind, sym, via), {"input": raw.hex()[:200], "reserialised": lib_bytes.hex()[:200]})
        return
    has_struct = any(t[0] != "op" or t[1] in (99, 100, 101, 102) for t in ref)
    if has_struct:
        ctx.nontrivial()
    if is_unclosed(ctx, ref):
        ctx.hit("unclosed_case")
        if not (wire.unclosed(ref) and wire.unclosed(ref, (99, 100))):
            ctx.hit("unclosed_only_under_library_opener_set")
        if lib_ok:
            ctx.viol("unclosed_conditional accepted (via=%s)" % via, {"input": raw.hex()[:200]})
        return
    if lib_ok:
        ctx.hit("accepted")
        if case.get("must_accept"):
            ctx.hit("grammar_accepted")
        if lib_bytes != raw:
            ctx.viol("accepted script re-serialises to different bytes (via=%s)" % via, {"input": raw.hex()[:200], "reserialised": lib_bytes.hex()[:200]})
        if lib_tokens is not None:
            flat = wire.lib_tokens_flat(lib_tokens)
            if flat != ref:
                ctx.viol("parsed element sequence differs from reference tokenizer (via=%s)" % via, {"input": raw.hex()[:200], "lib": repr(flat)[:300], "ref": repr(ref)[:300]})
            for t in ref:
                if t[0] == "pd":
                    ctx.hit("pd%d" % t[1])
                elif t[0] == "push":
                    ctx.hit("direct_push")
    elif lib_ok is False:
        ctx.hit("rejected")
        if case.get("must_accept"):
            ctx.viol("grammar script rejected (via=%s)" % via, {"input": raw.hex()[:200]})
    else:
        if case.get("must_accept"):
            ctx.viol("grammar script neither accepted nor rejected (via=%s)" % via, {"input": raw.hex()[:200]})


def detok_lenient(toks):
    out = bytearray()
    for t in toks:
        if t[0] == "push":
            out.append(len(t[1]))
            out += t[1]
        else:
            out += wire.detok([t])
    return bytes(out)


wire.detok_lenient = detok_lenient


def judge(ctx, case):
    k = case["k"]
    if k == "after_rejections":
        ctx.hit("after_rejections")
        ctx.nontrivial()
        rejected = 0
        for i in range(case["n"]):
            bad = [b"\x63" * case["depth"], (b"\x51\x63" * case["depth"]) + b"\x68" * (case["depth"] // 2), b"\x63\x67" * case["depth"], b"\x51" * 50 + b"\x4c\xff\x01", b"\x64" * case["depth"] + b"\x51"][i % 5]
            r = ctx.call({"op": "script_decode", "hex": bad.hex()})
            ctx.ev()
            if "err" in r:
                rejected += 1
            elif "ok" in r:
                ctx.viol("unclosed_conditional accepted (via=script)" if i % 5 != 3 else "truncated_pushdata accepted symptom=other (via=script)", {"input": bad.hex()[:100]})
        if rejected >= case["n"] * 0.9:
            ctx.hit("after_rejections_reached")
        for good in (b"\x51\x63\x52\x67\x53\x68", b"\x63\x68", b"\x63" * 200 + b"\x68" * 200, b"\x4c\x03abc", b"\x51\x64\x67\x63\x68\x68", b"\x76\xa9\x14" + bytes(20) + b"\x88\xac"):
            for via_k in ("script", "tx_embed"):
                if via_k == "script":
                    r = ctx.call({"op": "script_decode", "hex": good.hex()})
                    got = r["ok"]["bytes"] if "ok" in r else None
                else:
                    tb = wire.tx_encode({"version": 1, "ins": [{"txid_wire": b"\x22" * 32, "vout": 3, "script": good, "seq": 0xFFFFFFFE}], "outs": [{"value": 5, "script": good}], "locktime": 0})
                    r = ctx.call({"op": "tx_decode", "hex": tb.hex()})
                    got = good.hex() if "ok" in r and r["ok"]["bytes"] == tb.hex() else None
                ctx.ev()
                if got != good.hex():
                    ctx.viol("well-formed script rejected or altered after a long series of rejected scripts on the same thread (via=%s)" % via_k, {"input": good.hex()[:100], "resp": str(r)[:200]})
        return
    if k == "script":
        raw = bytes.fromhex(case["hex"])
        ctx.hit(case.get("tag", "script").split(":")[0])
        big = len(raw) > 100000
        rq = {"op": "script_decode", "hex": case["hex"]}
        if case.get("via"):
            rq["via"] = case["via"]
            if "cuts" in case:
                rq["cuts"] = case["cuts"]
        if not big:
            rq["extras"] = True
        r = ctx.call(rq)
        if "ok" in r:
            judge_script(ctx, case, raw, True, bytes.fromhex(r["ok"]["bytes"]), r["ok"]["tokens"], "script")
            if r["ok"]["bytes"] == case["hex"] and "static_bytes_eq" in r["ok"]:
                # the same element list through every other serialising / rebuilding entry point
                ctx.ev()
                ctx.hit("other_serialisers")
                for fld, what in (("static_bytes_eq", "Script::script_bits_to_bytes(to_script_bits())"), ("from_bits_eq", "from_script_bits(to_script_bits()).to_bytes()"), ("push_array_eq", "an empty script extended with push_array(to_script_bits())"), ("push_each_eq", "an empty script extended element by element with push()"), ("reparse_eq", "from_bytes(to_bytes()).to_bytes()")):
                    if not r["ok"][fld]:
                        ctx.viol("%s differs from to_bytes() of the parsed script" % what, {"input": case["hex"][:300]})
                if r["ok"]["len"] != len(raw) or not r["ok"]["hex_eq"]:
                    ctx.viol("get_script_length / to_hex disagree with to_bytes() of the parsed script", {"input": case["hex"][:300], "len": r["ok"]["len"]})
        elif "err" in r:
            judge_script(ctx, case, raw, False, None, None, "script")
        else:
            ctx.note("script_decode_" + [x for x in ("panic", "alloc_guard", "death", "timeout", "drv_err") if x in r][0])
            judge_script(ctx, case, raw, None, None, None, "script")
    elif k == "txin_embed":
        # the same script as the unlocking script of an ordinary (non-coinbase) input: accepted exactly when it is a script, unchanged
        raw = bytes.fromhex(case["hex"])
        ctx.hit("txin_embed")
        tx = {"version": 1, "ins": [{"txid_wire": b"\x22" * 32, "vout": 3, "script": raw, "seq": 0xFFFFFFFE}], "outs": [{"value": 5, "script": b"\x51"}], "locktime": 0}
        tb = wire.tx_encode(tx)
        r = ctx.call({"op": "tx_decode", "hex": tb.hex()})
        if "ok" in r:
            try:
                back = wire.tx_decode(bytes.fromhex(r["ok"]["bytes"]))
                sc = back["ins"][0]["script"] if len(back["ins"]) == 1 else None
            except wire.Trunc:
                sc = None
            if sc is None:
                ctx.viol("transaction with embedded script re-serialises to an undecodable transaction (via=txin)", {"input": tb.hex()[:300]})
                return
            r2 = ctx.call({"op": "script_decode", "hex": sc.hex()})
            toks = r2["ok"]["tokens"] if "ok" in r2 and r2["ok"]["bytes"] == sc.hex() and sc == raw else None
            judge_script(ctx, case, raw, True, sc, toks, "txin")
        elif "err" in r:
            judge_script(ctx, case, raw, False, None, None, "txin")
        else:
            ctx.note("txin_embed_other_outcome")
            judge_script(ctx, case, raw, None, None, None, "txin")
    elif k == "tx_embed":
        raw = bytes.fromhex(case["hex"])
        ctx.hit("tx_embed")
        tx = {"version": 1, "ins": [{"txid_wire": b"\x11" * 32, "vout": 1, "script": b"", "seq": 0xFFFFFFFE}], "outs": [{"value": 5, "script": raw}], "locktime": 0}
        tb = wire.tx_encode(tx)
        r = ctx.call({"op": "tx_decode", "hex": tb.hex()})
        if "ok" in r:
            o = r["ok"]
            try:
                back = wire.tx_decode(bytes.fromhex(o["bytes"]))
                sc = back["outs"][0]["script"] if len(back["outs"]) == 1 else None
            except wire.Trunc:
                sc = None
            if sc is None:
                ctx.viol("transaction with embedded script re-serialises to an undecodable transaction (via=tx)", {"input": tb.hex()[:300]})
                return
            # token view of the embedded script through the script accessor
            r2 = ctx.call({"op": "script_decode", "hex": sc.hex()})
            toks = r2["ok"]["tokens"] if "ok" in r2 and r2["ok"]["bytes"] == sc.hex() and sc == raw else None
            judge_script(ctx, case, raw, True, sc, toks, "tx")
            if bytes.fromhex(o["outs"][0]["script"]) != sc:
                ctx.viol("output script accessor disagrees with serialised bytes (via=tx)", {"input": tb.hex()[:300]})
        elif "err" in r:
            judge_script(ctx, case, raw, False, None, None, "tx")
        else:
            ctx.note("tx_embed_other_outcome")
            judge_script(ctx, case, raw, None, None, None, "tx")
    elif k == "prefix":
        L = case["len"]
        ctx.hit("prefix")
        ctx.nontrivial()
        r = ctx.call({"op": "push_prefix", "len": L})
        exp = wire.push_prefix(L).hex()
        for fn in ("get_pushdata_bytes", "get_pushdata_prefix_bytes"):
            ctx.ev()
            got = r.get("ok", {}).get(fn, {})
            cls = "1..75" if L <= 75 else "76..255" if L <= 255 else "256..65535" if L <= 65535 else "65536..2^32-1"
            ctx.hit("prefix_" + cls)
            if got.get("ok") != exp:
                sym = "error" if "err" in got else "panic" if "panic" in got else "wrong_bytes"
                ctx.viol("push prefix helper %s for length class %s%s" % (sym, cls, " (len=65536)" if L == 65536 else ""), {"len": L, "got": got, "expected": exp})
    elif k == "encode":
        ctx.hit("encode")
        ctx.nontrivial()
        req = {"op": "encode_pushdata"}
        if "hex" in case:
            req["hex"] = case["hex"]
            L = len(case["hex"]) // 2
        else:
            req["len"] = case["len"]
            req["seed"] = case["seed"]
            L = case["len"]
        req["guard"] = (256 << 20) + 16 * L
        if L >= 1 << 31:
            ctx.hit("encode_len>=2^31")
        r = ctx.call(req, watchdog=1200 if L >= 1 << 30 else None)
        ctx.ev()
        exp = wire.push_prefix(L)
        if "alloc_guard" in r or "timeout" in r or "death" in r:
            ctx.note("encode_pushdata probe hit a harness limit (%s) for len=%d: no verdict" % ([q for q in ("alloc_guard", "timeout", "death") if q in r][0], L))
            return
        if "ok" not in r:
            sym = "error" if "err" in r else "panic" if "panic" in r else "other"
            ctx.viol("encode_pushdata %s%s" % (sym, " (len=65536)" if L == 65536 else ""), {"len": L, "resp": {k_: r[k_] for k_ in r if k_ in ("err", "panic")}})
            return
        o = r["ok"]
        p = o["parsed"].get("ok")
        head_exp = exp.hex()
        if o["head"][: len(head_exp)] != head_exp:
            ctx.viol("encode_pushdata wrong prefix", {"len": L, "head": o["head"], "expected": head_exp})
        elif o["enc_len"] != len(exp) + L or not o["tail_ok"]:
            ctx.viol("encode_pushdata wrong length or payload", {"len": L, "o": o})
        elif p is None or p["n"] != 1 or not p["rt"] or not p["bits"][0].get("eq") or p["bits"][0].get("len") != L:
            ctx.viol("encode_pushdata output does not parse back to one push of the same data", {"len": L, "parsed": o["parsed"]})
        else:
            want_kind = ("push", None) if L <= 75 else ("pd", 76 if L <= 255 else 77 if L <= 65535 else 78)
            b0 = p["bits"][0]
            if b0["kind"] != want_kind[0] or (want_kind[1] is not None and b0.get("code") != want_kind[1]):
                ctx.viol("encode_pushdata did not choose the minimal push form", {"len": L, "bit": b0})
    elif k == "nest":
        d = case["depth"]
        ctx.hit("nest")
        ctx.nontrivial()
        miss = case.get("missing", 0)
        sc = (b"\x63" * d) + (b"\x51" if d else b"") + ((b"\x67\x68" if case["else"] else b"\x68") * (d - miss))
        # dedicated driver process: an abort here is attributed to this probe alone
        from .. import driver as drvmod

        dv = drvmod.Driver(ctx.build)
        try:
            r = dv.call({"op": "script_decode", "hex": sc.hex(), "no_tokens": True})
        finally:
            dv.close()
        ctx.ev()
        ctx.outcomes[drvmod.outcome(r)] += 1
        cls = "<=1000" if d <= 1000 else ">1000"
        if miss:
            ctx.hit("nest_unclosed")
            if "ok" in r:
                ctx.viol("script with never-closed conditionals accepted (nesting depth class %s, %s)" % (cls, "all but a few closed" if miss < d else "none closed"), {"depth": d, "missing": miss, "out": r["ok"]["bytes"][:100]})
            elif "death" in r:
                ctx.viol("deep_nesting depth_class=%s outcome=process_death" % cls, {"depth": d, "death": r["death"]})
            elif "err" not in r:
                ctx.viol("deep_nesting depth_class=%s outcome=%s" % (cls, drvmod.outcome(r)), {"depth": d})
            else:
                ctx.hit("nest_unclosed_rejected")
        elif "ok" in r:
            ctx.hit("nest_ok")
            if r["ok"]["bytes"] != sc.hex():
                ctx.viol("nested conditional script re-serialises differently", {"depth": d})
        elif "death" in r:
            ctx.viol("deep_nesting depth_class=%s outcome=process_death" % cls, {"depth": d, "death": r["death"]})
        elif "err" in r:
            ctx.viol("balanced nested conditionals rejected depth_class=%s" % cls, {"depth": d, "err": r["err"]})
        else:
            ctx.viol("deep_nesting depth_class=%s outcome=%s" % (cls, drvmod.outcome(r)), {"depth": d})
    else:
        raise ValueError(k)
