"""C10 — legacy (pre-fork) signature-hash preimage equals the original Bitcoin algorithm."""
from ..ref import ec, sighash
from . import sighash_common as sc

ID = "C10"
RULE = (
    "cases: (transaction, input index, subscript, value, flag) with all six legacy flags (01,02,03,81,82,83), every input index of 1..8-input transactions (plus 253/300 inputs), "
    "non-palindromic sequences, full-range values, subscripts of length 0/1/252/253/65535/65536 and grammar scripts; library preimage compared byte-for-byte "
    "with the reference original-algorithm serialiser (every OP_CODESEPARATOR removed at token level, other scripts blanked, NONE/SINGLE/ANYONECANPAY rewriting); signatures parsed with a strict DER parser and verified by the reference ECDSA verifier against sha256d(reference preimage). "
    "non-trivial = every distinct case (each carries a real transaction with >=1 input)"
)
ASSUMPTIONS = ["reference serialiser vf/ref/sighash.py (self-tested against the BIP143 example digest)", "reference secp256k1/ECDSA vf/ref/ec.py (self-tested against published vectors)"]
NSHARDS = {"quick": 32, "thorough": 64}
BUDGET_S = {"quick": 200, "thorough": 1800}
MIN_HITS = {
    'quick': {"flag_01": 481, "flag_02": 465, "flag_03": 457, "flag_81": 446, "flag_82": 463, "flag_83": 454, "idx>=1": 1463, "nonpalindromic_seq": 2709, "sign": 163, "subscript>=65536": 6, "single_without_output": 309, "subscript_has_ab_byte": 1013},
    'thorough': {"flag_01": 688267, "flag_03": 687865, "flag_83": 688089, "idx>=1": 2125916, "nonpalindromic_seq": 4070936, "sign": 96003, "subscript>=65536": 7},
}


def selftest():
    sighash.selftest()
    ec.selftest()


def cases(ctx):
    t = ctx.tier == "thorough"
    yield from sc.gen_cases(ctx, sighash.LEGACY_FLAGS, 30000 if t else 40, 2500 if t else 10)


def judge(ctx, case):
    sc.judge(ctx, case, False)
