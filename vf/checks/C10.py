"""C10 — legacy (pre-fork) signature-hash preimage equals the original Bitcoin algorithm."""
from ..ref import ec, sighash
from . import sighash_common as sc

ID = "C10"
RULE = (
    "cases: (transaction, input index, subscript, value, flag) with all six legacy flags (01,02,03,81,82,83), every input index of 1..8-input transactions (plus 253/300 inputs), "
    "non-palindromic sequences, full-range values, subscripts of length 0/1/252/253/65535/65536 and grammar scripts; library preimage compared byte-for-byte "
    "with the reference original-algorithm serialiser (every OP_CODESEPARATOR removed at token level, other scripts blanked, NONE/SINGLE/ANYONECANPAY rewriting); signatures parsed with a strict DER parser and verified by the reference ECDSA verifier against sha256d(reference preimage). "
    "non-trivial = every distinct case (each carries a real transaction with >=1 input)"
)
ASSUMPTIONS = ["reference serialiser vf/ref/sighash.py (self-tested against the BIP143 example digest)", "reference secp256k1/ECDSA vf/ref/ec.py (self-tested against published vectors)"]
NSHARDS = {"quick": 32, "thorough": 64}
BUDGET_S = {"quick": 200, "thorough": 1800}
MIN_HITS = {
    'quick': {"flag_01": 475, "flag_02": 459, "flag_03": 448, "flag_81": 437, "flag_82": 455, "flag_83": 446, "idx>=1": 1471, "nonpalindromic_seq": 2664, "sign": 163, "subscript>=65536": 6, "single_without_output": 310, "subscript_has_ab_byte": 1003},
    'thorough': {"flag_01": 183307, "flag_03": 183078, "flag_83": 183194, "idx>=1": 566367, "nonpalindromic_seq": 1084120, "sign": 23040, "subscript>=65536": 7},
}


def selftest():
    sighash.selftest()
    ec.selftest()


def cases(ctx):
    t = ctx.tier == "thorough"
    yield from sc.gen_cases(ctx, sighash.LEGACY_FLAGS, 30000 if t else 40, 2500 if t else 10)


def judge(ctx, case):
    sc.judge(ctx, case, False)
