"""C09 — decoders are total: Ok or Err on any input; never panic, abort, or allocate by a declared length."""
import json
import re

from .. import docmut, gen
from ..ref import aes, base58, bip32, ec, hashes, wire
from . import C11

ID = "C09"
RULE = (
    "cases: for each of 44 decoding entry points: empty input, every length 0..80 of 00/ff/random bytes, EVERY prefix of valid encodings, valid encodings with each position overwritten "
    "by extreme length/count patterns (fc, fd ffff, fe ffffffff, ff 2^63, ff 2^64-1, PUSHDATA4 2^31 ...), bit-flip / insert / delete / splice mutations, random bytes; for text decoders random "
    "Unicode, mutated valid strings, long strings; JSON/CBOR documents with deep nesting and huge declared array / byte-string lengths. Each request runs under catch_unwind, a counting "
    "allocator with guard limit C + K*len(input) (C = 1 MiB, K = 1024 bytes per input byte; K = 65536 for the serde JSON/CBOR document decoders), and process-death supervision. non-trivial = distinct (decoder, input) with a non-empty input"
)
ASSUMPTIONS = [
    "memory bound: peak heap growth during one decode request <= 1 MiB + 1024 * input length (the widest legitimate decoder, the script token vector, was measured at < 260 bytes per input byte)",
    "'touch' of an accepted value through the library's own accessors is part of the observation (a decoder that accepts a value on which the library's own accessor panics is reported separately)",
    "slow is not a violation (Base58 text capped at 5 KB)",
]
NSHARDS = {"quick": 32, "thorough": 64}
BUDGET_S = {"quick": 240, "thorough": 2400}
EXTRA_BUILDS = {"thorough": ["asan"]}
GENERIC_REL = False  # own release stage in extra_stages
GUARD_C = 1 << 20
GUARD_K = 1024
# serde-based document decoders pre-allocate a capped (<= 4096 element) vector per declared array, i.e. a bounded amount per ~10 input bytes
GUARD_K_DOC = 65536

TEXT_DECODERS = None
DECODERS = None


def selftest():
    ec.selftest()


def load_decoders(ctx):
    global DECODERS
    if DECODERS is None:
        r = ctx.call({"op": "decoders"})
        DECODERS = [(a, b) for a, b in r["ok"]]
    return DECODERS


MIN_HITS = {
    'quick': {"request": 1458655, "prefix": 253223, "extreme_len": 965734, "short": 55184, "decoders_seen": 736},
    'thorough': {"request": 13389670, "prefix": 1170451, "extreme_len": 4958361, "short": 506995, "decoders_seen": 1766},
}

EXTREMES = [b"\xfc", b"\xfd\xff\xff", b"\xfe\xff\xff\xff\xff", b"\xff" + (2**63).to_bytes(8, "little"), b"\xff" * 9, b"\xfe\x00\x00\x00\x80", b"\x4e\xff\xff\xff\x7f", b"\x4e\xff\xff\xff\xff", b"\x4d\xff\xff", b"\x4c\xff", b"\xfd\x00\x00", b"\x5b" + b"\xff" * 8, b"\x9b" + b"\xff" * 8, b"\xbb" + b"\xff" * 8, b"\x7b" + b"\xff" * 8, b"\x5a\xff\xff\xff\xff"]


def valid_corpus(ctx):
    """valid encodings per decoder, produced by the references (and by the library for JSON/CBOR documents)"""
    r = ctx.rnd
    c = {}
    txs = [gen.gen_tx(r, r.choice([1, 2, 3]), r.choice([1, 2]), coinbase=(i == 0), script_kw={"n_tokens": r.choice([1, 3, 6]), "depth": 2, "minimal": False, "push_lens": [0, 1, 2, 20, 33, 76]}) for i in range(3)]
    raws = [wire.tx_encode(t) for t in txs]
    c["tx_from_bytes"] = raws
    c["tx_from_hex"] = [x.hex() for x in raws]
    docs = []
    for t, raw in zip(txs, raws):
        d = ctx.call({"op": "docs", "tx": raw.hex(), "ext": [{"satoshis": r.getrandbits(64), "locking": "76a914" + "11" * 20 + "88ac"} for _ in t["ins"]]})
        if "ok" in d:
            docs.append(d["ok"])
    c["tx_from_json_string"] = [d["json"] for d in docs]
    c["tx_from_compact_bytes"] = [bytes.fromhex(d["cbor"]) for d in docs]
    c["tx_from_compact_hex"] = [d["cbor"] for d in docs]
    c["txin_from_hex"] = [wire.txin_encode(i).hex() for t in txs for i in t["ins"]][:4]
    c["txin_from_compact_bytes"] = [bytes.fromhex(i["cbor"]) for d in docs for i in d["ins"]][:4]
    c["txin_from_compact_hex"] = [i["cbor"] for d in docs for i in d["ins"]][:4]
    c["txin_from_outpoint_bytes"] = [gen.rbytes(r, 36)]
    c["txin_serde_json"] = [i["json"] for d in docs for i in d["ins"]][:4]
    c["txout_from_hex"] = [wire.txout_encode(o).hex() for t in txs for o in t["outs"]][:3]
    c["txout_serde_json"] = [o["json"] for d in docs for o in d["outs"]][:3]
    scripts = [gen.gen_script(r, n, depth=3, minimal=False, push_lens=[0, 1, 2, 20, 75, 76, 255, 256]) for n in (3, 8, 20)] + [bytes.fromhex("76a914" + "22" * 20 + "88ac")]
    c["script_from_bytes"] = scripts
    c["script_from_chunks"] = scripts
    c["script_from_hex"] = [s.hex() for s in scripts]
    asm_ = []
    for s in scripts:
        a = ctx.call({"op": "asm", "hex": s.hex()})
        if "ok" in a:
            asm_.append(a["ok"]["asm"])
    c["script_from_asm_string"] = asm_ or ["OP_DUP OP_HASH160 00 OP_EQUALVERIFY"]
    sj = []
    for d in docs:
        try:
            sj.append(json.dumps(json.loads(d["json"])["inputs"][-1]["script_sig"]))
        except Exception:
            pass
    c["script_serde_json"] = sj or ['["OP_DUP","aabb"]']
    c["template_from_asm_string"] = ["OP_DUP OP_HASH160 OP_PUBKEYHASH OP_EQUALVERIFY OP_CHECKSIG", "OP_SIG OP_PUBKEY OP_DATA>=20 OP_DATA<5 OP_DATA=32 0 16 aabbcc OP_RETURN OP_DATA"]
    x = r.randrange(1, ec.N)
    xb = x.to_bytes(32, "big")
    c["privkey_from_bytes"] = [xb]
    c["privkey_from_hex"] = [xb.hex()]
    c["privkey_from_wif"] = [base58.check_encode(b"\x80" + xb + b"\x01"), base58.check_encode(b"\x80" + xb)]
    Q = ec.mul_g(x)
    c["pubkey_from_bytes"] = [ec.ser(Q, True), ec.ser(Q, False)]
    c["pubkey_from_hex"] = [ec.ser(Q, True).hex(), ec.ser(Q, False).hex()]
    c["pubkey_serde_json"] = [json.dumps(ec.ser(Q, True).hex())]
    m = bip32.master(gen.rbytes(r, 32))
    ch = bip32.ckd_priv(m, 0x80000001)
    c["xprv_from_string"] = [m.to_string(), ch.to_string()]
    c["xpub_from_string"] = [m.neuter().to_string(), ch.neuter().to_string()]
    c["xprv_path"] = ["m/0'/1/2h/3H", "m/44'/0'/0'/0/5", "m/2147483647'/2147483647"]
    c["xpub_path"] = ["m/0/1/2", "m/2147483647"]
    c["xprv_from_seed"] = [gen.rbytes(r, 32), gen.rbytes(r, 64)]
    h160 = hashes.hash160(ec.ser(Q, True))
    c["addr_from_string"] = [base58.check_encode(b"\x00" + h160), base58.check_encode(b"\x6f" + h160), base58.check_encode(b"\x00" + b"\x00" * 20)]
    c["addr_from_pubkey_hash"] = [h160]
    c["addr_serde_json"] = [json.dumps(base58.check_encode(b"\x00" + h160))]
    sg = ec.sign_det(x, hashes.sha256(b"m"))
    der = ec.der_encode(sg[0], sg[1])
    c["sig_from_der"] = [der, der + b"\x41"]
    c["sig_from_hex_der"] = [der.hex(), (der + b"\xc3").hex()]
    comp = bytes([31 + (1 if sg[2] else 0)]) + sg[0].to_bytes(32, "big") + sg[1].to_bytes(32, "big")
    c["sig_from_compact"] = [comp, bytes([27]) + comp[1:]]
    c["sighashsig_from_bytes"] = [der + b"\x41", der + b"\x01"]
    bie, _ = C11.ref_bie1(x, ec.mul_g(7), b"hello world, this is a message", False)
    bie2, _ = C11.ref_bie1(x, ec.mul_g(7), b"short", True)
    # the same envelope with the sender key in the 65-byte uncompressed form (not what the format uses, but a shape a parser may grow to
    # accept), padded to several total lengths
    unc = [b"BIE1" + ec.ser(ec.mul_g(x), False) + gen.rbytes(r, n_) for n_ in (0, 16, 31, 32, 48, 64, 100)]
    c["ecies_from_bytes_pub"] = [bie] + unc
    c["ecies_from_bytes_nopub"] = [bie2]
    c["hash_serde_json"] = ['"' + gen.rbytes(r, 32).hex() + '"']
    c["kdf_serde_json"] = ['{"hash":"' + gen.rbytes(r, 32).hex() + '","salt":"' + gen.rbytes(r, 8).hex() + '"}']
    d32 = hashes.sha256(b"m")
    c["verify_hashbuf_digest"] = [d32]
    c["sign_digest"] = [d32]
    c["recover_from_digest"] = [d32]
    c["recover_from_digest_inner"] = [d32]
    c["recover_from_message_inner"] = [b"m", b"", d32]
    c["aes_key_iv"] = [bytes([mode, dr, kl, 16]) + gen.rbytes(r, kl + 16) + gen.rbytes(r, 37 if dr == 0 else 48) for mode, kl in ((0, 16), (1, 32), (2, 16), (3, 32)) for dr in (0, 1)]
    return c


UNI = ["", "\u0000", "é", "中文", "\U0001f600", "퟿", "﻿", "‮", "0", "1", "m", "/", "'", "\"", "{", "[", "null", "-1", "1e999", " ", "\n", "\t", "OP_", "OP_IF", "OP_ENDIF", "OP_ELSE", "OP_DATA=", "OP_DATA>=99999999999999999999", "OP_DATA<-1", "ff", "f", "0x", "zz"]


def text_mutate(r, s):
    k = r.randrange(7)
    if not s:
        return r.choice(UNI)
    p = r.randrange(len(s))
    if k == 0:
        return s[:p] + r.choice(UNI) + s[p:]
    if k == 1:
        return s[:p] + s[p + 1 :]
    if k == 2:
        return s[:p]
    if k == 3:
        return s[:p] + r.choice("0123456789abcdefABCDEFgG_'/hHmM \n\"{}[],:-") + s[p + 1 :]
    if k == 4:
        q = r.randrange(len(s))
        return s[: min(p, q)] + s[min(p, q) : max(p, q)] * 2 + s[max(p, q) :]
    if k == 5:
        return s + r.choice(UNI)
    return s[:p] + s[p:][::-1]


def cases(ctx):
    r = ctx.rnd
    S, N = ctx.shard, ctx.nshards
    t = ctx.tier == "thorough"
    decs = load_decoders(ctx)
    corpus = valid_corpus(ctx)
    k = 0
    # 0. documents in the library's OWN schema for inputs whose script nests conditionals deeply (the document nests two levels per
    # conditional): below, at and far above the decoders' recursion limits; far above them only an error is acceptable, not a dead
    # process. The depth-2 document comes from the library; deeper ones repeat its per-level bytes (building them through the library
    # costs minutes at depth 2000).
    PRE_C, POST_C, INNER_C = bytes.fromhex("a364636f6465654f505f4946647061737381"), bytes.fromhex("646661696cf6"), bytes.fromhex("644f505f31")
    PRE_J, POST_J, INNER_J = '{"code":"OP_IF","pass":[', '],"fail":null}', '"OP_1"'
    tmpl = None
    for dpt in (60, 126, 127, 128, 500, 1000, 1900, 3000, 4095, 4096, 8000, 20000):
        k += 1
        if k % N != S:
            continue
        if tmpl is None:
            rawd = wire.tx_encode({"version": 1, "ins": [{"txid_wire": b"\x11" * 32, "vout": 0, "script": b"\x63\x63\x51\x68\x68", "seq": 1}], "outs": [], "locktime": 0})
            d = ctx.call({"op": "docs", "tx": rawd.hex()})
            if "ok" not in d:
                break
            tmpl = {}
            for name, doc, mid in (("tx_c", bytes.fromhex(d["ok"]["cbor"]), PRE_C * 2 + INNER_C + POST_C * 2), ("in_c", bytes.fromhex(d["ok"]["ins"][0]["cbor"]), PRE_C * 2 + INNER_C + POST_C * 2),
                                   ("tx_j", "".join(d["ok"]["json"].split()), PRE_J * 2 + INNER_J + POST_J * 2), ("in_j", "".join(d["ok"]["ins"][0]["json"].split()), PRE_J * 2 + INNER_J + POST_J * 2)):
                if doc.count(mid) != 1:
                    tmpl = None
                    break
                tmpl[name] = doc.split(mid)
            if tmpl is None:
                ctx.note("nested-document template could not be derived from the library's depth-2 document")
                break
        mk_c = lambda ht: ht[0] + PRE_C * dpt + INNER_C + POST_C * dpt + ht[1]
        mk_j = lambda ht: ht[0] + PRE_J * dpt + INNER_J + POST_J * dpt + ht[1]
        for which, item in (("tx_from_json_string", mk_j(tmpl["tx_j"])), ("tx_from_compact_bytes", mk_c(tmpl["tx_c"])), ("tx_from_compact_hex", mk_c(tmpl["tx_c"]).hex()), ("txin_serde_json", mk_j(tmpl["in_j"])),
                            ("txin_from_compact_bytes", mk_c(tmpl["in_c"])), ("txin_from_compact_hex", mk_c(tmpl["in_c"]).hex())):
            c_ = mk(which, "bytes" if isinstance(item, bytes) else "text", item, "nested_document")
            c_["depth"] = dpt
            yield c_
    for which, kind in decs:
        valid = corpus.get(which, [])
        # 1. empty and short inputs of every length 0..80
        for L in range(0, 81):
            k += 1
            if k % N != S and not t:
                if (k + L) % 4:
                    continue
            if kind == "bytes":
                for fill in (b"\x00", b"\xff", None):
                    b = gen.rbytes(r, L) if fill is None else fill * L
                    yield {"k": "dec", "which": which, "hex": b.hex(), "cls": "short"}
            else:
                for fill in ("0", "f", "1", None):
                    s = "".join(r.choice("0123456789abcdef") for _ in range(L)) if fill is None else fill * L
                    yield {"k": "dec", "which": which, "text": s, "cls": "short"}
        # 2. valid encodings themselves and every prefix
        for v in valid:
            yield mk(which, kind, v, "valid")
            n = len(v)
            cuts = range(n) if n <= 400 or t else sorted(set(list(range(0, 120)) + list(range(n - 60, n)) + [r.randrange(n) for _ in range(150)]))
            for cut in cuts:
                yield mk(which, kind, v[:cut], "prefix")
            # 3. extreme declared lengths at every (sampled) position
            if kind == "bytes":
                pos = range(n) if n <= 120 else sorted(set(list(range(0, 60)) + [r.randrange(n) for _ in range(80 if not t else 400)]))
                for p in pos:
                    for e in (EXTREMES if (t or p % 2 == S % 2) else EXTREMES[::3]):
                        yield mk(which, kind, v[:p] + e + v[p + 1 :], "extreme_len")
            elif which in ("tx_from_hex", "tx_from_compact_hex", "txin_from_hex", "txin_from_compact_hex", "txout_from_hex", "script_from_hex", "sig_from_hex_der", "privkey_from_hex", "pubkey_from_hex"):
                raw = bytes.fromhex(v)
                n2 = len(raw)
                for p in (range(n2) if n2 <= 120 else sorted(set(list(range(60)) + [r.randrange(n2) for _ in range(60)]))):
                    for e in EXTREMES[:: (1 if t else 2)]:
                        yield mk(which, kind, (raw[:p] + e + raw[p + 1 :]).hex(), "extreme_len")
            # 4. mutations
            for _ in range(120 if t else 12):
                if kind == "bytes":
                    yield mk(which, kind, gen.mutate(r, v, r.choice([1, 1, 2, 4])), "mutant")
                else:
                    s = v
                    for _ in range(r.choice([1, 1, 2, 4])):
                        s = text_mutate(r, s)
                    yield mk(which, kind, s, "mutant")
        # 4a. text decoders: a 2-, 3- and 4-byte UTF-8 character inserted at / substituted for EVERY character position of the valid
        # texts (byte-offset slicing that lands inside a character panics only for particular positions)
        if kind != "bytes":
            for v in valid:
                n = len(v)
                pos = range(n + 1) if n <= 300 or t else sorted(set(list(range(0, 150)) + list(range(n - 100, n + 1)) + [r.randrange(n) for _ in range(100)]))
                for p in pos:
                    k += 1
                    if k % N != S and not t:
                        if n > 40:
                            continue
                    for ch in ("\u00e9", "\u4e2d", "\U0001f600"):
                        yield mk(which, kind, v[:p] + ch + v[p:], "unicode_at_position")
                        if p < n:
                            yield mk(which, kind, v[:p] + ch + v[p + 1 :], "unicode_at_position")
        # 4b. Base58Check strings with a VALID checksum over a payload of every length 0..90 (length checks behind the checksum gate)
        if which in ("privkey_from_wif", "addr_from_string", "xprv_from_string", "xpub_from_string", "addr_serde_json"):
            for L in range(0, 91):
                for lead in (None, 0x80, 0x00, 0x04):
                    if lead is not None and (L == 0 or (S + L) % 2):
                        continue
                    payload = gen.rbytes(r, L)
                    if lead is not None:
                        payload = bytes([lead]) + payload[1:]
                    txt = base58.check_encode(payload)
                    yield mk(which, kind, json.dumps(txt) if which.endswith("serde_json") else txt, "checksum_valid_len")
        # 4c. structured (field-level) mutation of JSON documents, also re-encoded as CBOR for the CBOR decoders
        docsrc = {"tx_from_json_string": "tx_from_json_string", "tx_from_compact_bytes": "tx_from_json_string", "tx_from_compact_hex": "tx_from_json_string",
                  "txin_serde_json": "txin_serde_json", "txin_from_compact_bytes": "txin_serde_json", "txin_from_compact_hex": "txin_serde_json",
                  "txout_serde_json": "txout_serde_json", "script_serde_json": "script_serde_json"}.get(which)
        if docsrc and corpus.get(docsrc):
            srcs = corpus[docsrc] if t else [corpus[docsrc][S % len(corpus[docsrc])]]
            for text in srcs:
                try:
                    muts = list(docmut.all_variants(text, r, max_paths=400 if t else 120))
                except ValueError:
                    continue
                for d in muts:
                    try:
                        if which.endswith("compact_bytes"):
                            yield mk(which, kind, docmut.cbor(d), "field_mutation")
                        elif which.endswith("compact_hex"):
                            yield mk(which, kind, docmut.cbor(d).hex(), "field_mutation")
                        else:
                            yield mk(which, kind, json.dumps(d), "field_mutation")
                    except (TypeError, ValueError, OverflowError):
                        continue
        # 5. random
        for _ in range(200 if t else 12):
            if kind == "bytes":
                yield mk(which, kind, gen.rbytes(r, r.choice([1, 2, 5, 33, 65, 100, 300])), "random")
            else:
                yield mk(which, kind, "".join(r.choice(UNI + list("0123456789abcdef")) for _ in range(r.choice([1, 3, 10, 40]))), "random")
        # 5a. script decoders: a push that declares far more than remains, BEHIND prefixes that may switch a parser into another mode
        # (data carrier, open conditional, code separator, ...)
        if which in ("script_from_bytes", "script_from_hex", "script_from_chunks", "tx_from_bytes", "tx_from_hex", "txout_from_hex", "txin_from_hex"):
            pres = [b"", b"\x6a", b"\x00\x6a", b"\x6a\x6a", b"\x51\x6a", b"\x63", b"\x51\x63", b"\x63\x67", b"\xab", b"\x00", b"\x6a\x04abcd", b"\x76\xa9\x14" + bytes(20) + b"\x88\xac", b"\x6a\x4c\x01\x00"]
            bombs = [b"\x4e\xff\xff\xff\xff", b"\x4e\x00\x00\x00\x10", b"\x4e\xff\xff\xff\x7f", b"\x4d\xff\xff", b"\x4c\xff", b"\x4e\x00\x00\x00\x10" + b"\x00" * 16, b"\x4b", b"\x4e\xff\xff\xff"]
            for pre in pres:
                for bomb in bombs:
                    k += 1
                    if k % N != S and not t:
                        continue
                    sc = pre + bomb
                    if which.startswith("script"):
                        item = sc
                    elif which.startswith("txout"):
                        item = wire.txout_encode({"value": 1, "script": sc})
                    elif which.startswith("txin"):
                        item = wire.txin_encode({"txid_wire": b"\x22" * 32, "vout": 1, "script": sc, "seq": 0})
                    else:
                        item = wire.tx_encode({"version": 1, "ins": [{"txid_wire": b"\x22" * 32, "vout": 1, "script": sc if len(pre) % 2 else b"", "seq": 0}], "outs": [{"value": 1, "script": sc}], "locktime": 0})
                    yield mk(which, kind, item.hex() if kind == "text" else item, "oversized_push_behind_prefix")
        # template tokens with numeric extremes
        if which == "template_from_asm_string":
            for op_ in ("=", "<", ">", "<=", ">="):
                for n_ in (0, 1, 75, 76, 2**31 - 1, 2**31, 2**32 - 1, 2**32, 2**63 - 1, 2**63, 2**64 - 2, 2**64 - 1, 2**64, 2**64 + 1, 10**30, -1):
                    yield mk(which, kind, "OP_DATA%s%d" % (op_, n_), "template_number")
                    yield mk(which, kind, "OP_DUP OP_DATA%s%d OP_DATA" % (op_, n_), "template_number")
        # 5b. long runs of one repeated unit, alone and after / before a valid encoding (recursion or quadratic work per repeated unit:
        # a parser that retries on the remainder, strips one trailing byte at a time, ...). Conditional openers are left to the
        # dedicated nesting probes below.
        run_n = [150000] + ([2000000] if t else [])
        if kind == "bytes":
            units = [bytes([x]) for x in (0x00, 0x01, 0x02, 0x30, 0x41, 0x43, 0x4B, 0x4C, 0x4D, 0x4E, 0x51, 0x67, 0x68, 0x6A, 0x80, 0x81, 0xAB, 0xC1, 0xC3, 0xFD, 0xFE, 0xFF)] + [b"\x30\x00", b"\x02\x01", b"\x00\x41"]
            # flat runs of CLOSED conditionals (each branch reader must cost what it reads, not what is left of the script)
            units += [b"\x63\x67\x68", b"\x51\x63\x52\x67\x53\x68", b"\x64\x67\x67\x68", b"\x63\x68"]
        else:
            units = ["41", "30", "00", "ff", "c1", "01", "OP_1 ", "0 ", " ", "\n", "\t", "/0", "/0'", "1", "z", "=", "\\", "\"", ","]
            units += ["OP_IF OP_ELSE OP_ENDIF ", "OP_1 OP_IF OP_2 OP_ELSE OP_3 OP_ENDIF ", "6367 68", "636768"]
        cond_units = (b"\x63\x67\x68", b"\x51\x63\x52\x67\x53\x68", b"\x64\x67\x67\x68", b"\x63\x68", "OP_IF OP_ELSE OP_ENDIF ", "OP_1 OP_IF OP_2 OP_ELSE OP_3 OP_ENDIF ", "6367 68", "636768")
        for ui, u in enumerate(units):
            k += 1
            if k % N != S and (not t or u in cond_units):
                continue  # (the runs of closed conditionals build megabytes of nested elements: one shard each, also in the thorough tier)
            enc = (lambda x: bytes(x).hex()) if kind == "bytes" else (lambda x: x)
            empty = b"" if kind == "bytes" else ""
            for n_ in run_n:
                if which in ("addr_from_string", "xprv_from_string", "xpub_from_string", "privkey_from_wif", "addr_serde_json"):
                    n_ = min(n_, 20000)  # Base58 decoding is quadratic in the text length (time is not part of the property)
                yield {"k": "dec", "which": which, "cls": "long_run", "run": {"kind": kind, "pre": enc(empty), "unit": enc(u), "n": n_, "post": enc(empty)}}
                if valid:
                    v0 = valid[ui % len(valid)]
                    if len(v0) <= 4096:
                        yield {"k": "dec", "which": which, "cls": "long_run", "run": {"kind": kind, "pre": enc(v0), "unit": enc(u), "n": n_, "post": enc(empty)}}
                        yield {"k": "dec", "which": which, "cls": "long_run", "run": {"kind": kind, "pre": enc(empty), "unit": enc(u), "n": n_ // 10, "post": enc(v0)}}
        # 6. long text / structured bombs
        if kind == "text" and S % 8 == 0:
            yield mk(which, kind, "1" * 5000, "long")
            yield mk(which, kind, "f" * 200000 if "wif" not in which and "string" not in which and "addr" not in which and "path" not in which else "z" * 5000, "long")
            yield mk(which, kind, "m" + "/1" * 3000, "long")
            yield mk(which, kind, "[" * 100000, "deep")
            yield mk(which, kind, '{"a":' * 50000, "deep")
            yield mk(which, kind, "OP_IF " * 30000, "deep")
            yield mk(which, kind, ("OP_IF " * 3000) + ("OP_ENDIF " * 3000), "deep")
        if "compact_bytes" in which and S % 8 == 1:
            for bomb in (b"\x81" * 100000, b"\x9f" * 100000, b"\xa1\x61\x61" * 30000, b"\x9b" + b"\xff" * 8, b"\x5b" + b"\xff" * 8 + b"abc", b"\x7b" + b"\xff" * 8, b"\xbb" + b"\xff" * 8, b"\xc0" * 100000, b"\xd8\x18" * 50000):
                yield mk(which, kind, bomb, "deep")
        if which in ("script_from_bytes", "tx_from_bytes") and S % 8 == 2:
            # nesting below the native-stack threshold that C02 tracks as a known finding
            for d in (100, 500, 1000, 100000):
                sc = b"\x63" * d + b"\x68" * d
                if which == "script_from_bytes":
                    yield mk(which, kind, sc, "deep")
                else:
                    yield mk(which, kind, wire.tx_encode({"version": 1, "ins": [], "outs": [{"value": 1, "script": sc}], "locktime": 0}), "deep")


def mk(which, kind, v, cls):
    if kind == "bytes":
        return {"k": "dec", "which": which, "hex": bytes(v).hex(), "cls": cls}
    return {"k": "dec", "which": which, "text": v, "cls": cls}


NUM = re.compile(r"\d+")


def norm(msg):
    return NUM.sub("N", " ".join(msg.split()))[:160]


def short_file(f):
    f = f.replace("\\", "/")
    if "/repo/" in f:
        return "repo:" + f.split("/repo/", 1)[1]
    m = re.search(r"registry/src/[^/]+/([^/]+)/(.*)$", f)
    if m:
        return "dep:%s/%s" % (re.sub(r"-\d[\d.]*$", "", m.group(1)), m.group(2))
    if "/rustc/" in f or "library/" in f:
        return "std:" + f.split("library/", 1)[-1]
    return f


def inp(case):
    """printable form of the input for reports"""
    if "run" in case:
        ru = case["run"]
        return "%s + %s * %d + %s" % (ru["pre"][:80], ru["unit"], ru["n"], ru["post"][:80])
    return case.get("hex", case.get("text"))


def request_of(case):
    which = case["which"]
    if "run" in case:
        ru = case["run"]
        if ru["kind"] == "bytes":
            n = (len(ru["pre"]) + len(ru["unit"]) * ru["n"] + len(ru["post"])) // 2
        else:
            n = len((ru["pre"] + ru["post"]).encode("utf8", "surrogatepass")) + len(ru["unit"].encode("utf8")) * ru["n"]
        req = {"op": "decode", "which": which, "run": {q: ru[q] for q in ("pre", "unit", "n", "post")}}
    elif "hex" in case:
        n = len(case["hex"]) // 2
        req = {"op": "decode", "which": which, "hex": case["hex"] if which != "aes_key_iv" or n >= 4 else case["hex"] + "00" * (4 - n)}
    else:
        n = len(case["text"].encode("utf8", "surrogatepass"))
        req = {"op": "decode", "which": which, "text": case["text"]}
    req["guard"] = GUARD_C + (GUARD_K_DOC if ("json" in which or "compact" in which) else GUARD_K) * n
    return req, n


def judge(ctx, case, build=None):
    req, n = request_of(case)
    build = build or ctx.build
    r = ctx.call(req, build=build)
    assess(ctx, case, n, r, build)


def assess(ctx, case, n, r, build):
    which = case["which"]
    ctx.hit("request")
    ctx.hit(case["cls"])
    ctx.hit("dec_" + which)
    if ctx.hits["dec_" + which] == 1:
        ctx.hit("decoders_seen")
    if n:
        ctx.nontrivial()
    ctx.ev()
    tag = "" if build in (None, "chk") else " [%s build]" % build
    if "ok" in r:
        ctx.hit("accepted")
        ctx.maxstat("peak_bytes_per_input_byte[%s]" % which, (r["peak"]) / max(n, 64))
        tj = r["ok"]["touch"]
        items = tj.items() if isinstance(tj, dict) and "panic" not in tj else [("value", tj)]
        for name, v in items:
            if isinstance(v, dict) and "panic" in v:
                ctx.viol("decoder %s accepts a value on which the library's own accessor (%s) panics: %s @ %s%s" % (which, name, norm(v["panic"]["msg"]), short_file(v["panic"]["file"]), tag), {"input": inp(case)[:300]})
    elif "err" in r:
        ctx.hit("rejected")
        ctx.maxstat("peak_bytes_per_input_byte[%s]" % which, (r["peak"]) / max(n, 64))
    elif "panic" in r:
        ctx.viol("decoder %s panics: %s @ %s%s" % (which, norm(r["panic"]["msg"]), short_file(r["panic"]["file"]), tag), {"input": inp(case)[:300], "cls": case["cls"]})
    elif "alloc_guard" in r:
        g = r["alloc_guard"]
        ctx.viol("decoder %s exceeds the memory bound C + K * input length (%s)%s" % (which, "one allocation larger than the whole bound" if g["size"] > g["limit"] else "cumulative", tag), {"input": inp(case)[:300], "guard": g, "input_len": n})
    elif "miri_ub" in r:
        ctx.viol("decoder %s: Miri reports an error: %s" % (which, norm(r["miri_ub"])), {"input": inp(case)[:300], "stderr": r.get("stderr", "")[-1500:]})
    elif "death" in r:
        d = r["death"]
        err = d.get("stderr", "")
        asan = d.get("code") == 99 or "AddressSanitizer" in err
        if case["cls"] == "deep" and (not asan or "stack-overflow" in err):
            # same symptom in every build: recursion over nested conditionals exhausts the native stack
            ctx.viol("decoder %s kills the process on deeply nested input (native stack overflow)" % which, {"input": inp(case)[:120], "build": build, "death": {q: d[q] for q in d if q != "stderr"}})
        elif asan:
            first = [l for l in err.splitlines() if "ERROR: AddressSanitizer" in l][:1]
            ctx.viol("decoder %s: AddressSanitizer report: %s" % (which, norm(first[0].split("AddressSanitizer:")[-1].split(" on ")[0]) if first else "unknown"), {"input": inp(case)[:300], "stderr": err[:1500]})
        else:
            ctx.viol("decoder %s kills the process (%s)%s" % (which, d.get("signal") or d.get("code"), tag), {"input": inp(case)[:300], "cls": case["cls"], "death": {q: d[q] for q in d if q != "stderr"}})

def fuzz_stage(modname, tier, seed, target, seconds, to_cases, seeds=(), max_len=1024):
    """thorough only: run the libFuzzer input finder, convert artifacts + corpus into cases and re-judge them with this module's oracle"""
    import importlib
    from .. import core, fuzz

    mod = importlib.import_module(modname)
    ctx = core.Ctx(mod.ID, tier, seed, 0, 1)
    try:
        res = fuzz.run(target, seconds, seeds=seeds, max_len=max_len)
    except Exception as e:  # finder unavailable: reported, never a verdict
        ctx.note("fuzz stage skipped: %s" % str(e)[:200])
        return [ctx.result()]
    n = 0
    try:
        for kind, data in res["artifacts"]:
            for case in to_cases(data, "fuzz_artifact_" + kind):
                ctx.begin(case)
                mod.judge(ctx, case)
                ctx.end()
                n += 1
        for data in res["corpus"]:
            for case in to_cases(data, "fuzz_corpus"):
                ctx.begin(case)
                mod.judge(ctx, case)
                ctx.end()
                n += 1
    finally:
        ctx.close()
    ctx.exhaustive.append("libFuzzer finder '%s': %d s, %d artifacts, %d corpus files (%d re-judged cases); %s" % (target, seconds, len(res["artifacts"]), res["n_corpus_files"], n, res["stats"]))
    r = ctx.result()
    r["hits"] = {"fuzz:%s" % k: v for k, v in r["hits"].items()}
    r["samples"] = []
    return [r]


MIRI_DECODERS = ["tx_from_bytes", "tx_from_hex", "tx_from_compact_bytes", "tx_from_json_string", "txin_from_hex", "txin_from_compact_bytes", "txin_serde_json", "txout_from_hex", "txout_serde_json", "script_from_bytes", "script_from_hex", "script_from_asm_string", "script_serde_json", "template_from_asm_string", "addr_from_string", "addr_from_pubkey_hash", "sig_from_der", "sighashsig_from_bytes", "hash_serde_json", "kdf_serde_json", "txin_from_outpoint_bytes"]


def extra_stages(tier, seed, res):
    """thorough only: the same workload generator against the release build (sites that panic under overflow checks wrap silently there),
    against the AddressSanitizer build, and a small non-EC corpus under Miri."""
    if tier != "thorough":
        return []
    from .. import core, miri

    out = []
    out += core.run_build_stage(__name__, "quick", seed + 101, "rel", list(range(0, 32)), 32, 600)
    try:
        out += core.run_build_stage(__name__, "quick", seed + 202, "asan", list(range(0, 32, 2)), 32, 900)
    except Exception as e:  # nightly sanitizer path unavailable: reported, never a verdict
        c = core.Ctx(ID, tier, seed, 0, 1)
        c.note("asan stage skipped: %s" % str(e)[:200])
        out.append(c.result())
    # Miri: ~0.3 s per request -> a small corpus of the cheapest, most structural decoders
    ctx = core.Ctx(ID, "quick", seed + 303, 0, 64)
    picked = []
    try:
        per = {}
        for case in cases(ctx):
            w = case["which"]
            if w not in MIRI_DECODERS or case["cls"] in ("long", "deep", "long_run"):
                continue
            if len(case.get("hex", case.get("text", ""))) > 1200:
                continue
            if per.get((w, case["cls"]), 0) >= 28:
                continue
            per[(w, case["cls"])] = per.get((w, case["cls"]), 0) + 1
            picked.append(case)
    finally:
        ctx.close()
    ctx.rnd.shuffle(picked)
    picked = picked[:2400]
    reqs = [request_of(c) for c in picked]
    resps, diag = miri.run([q for q, _ in reqs], nproc=16, timeout_s=2400)
    mctx = core.Ctx(ID, tier, seed, 0, 1)
    if resps is None:
        mctx.note("miri stage skipped: %s" % str(diag)[:300])
    else:
        n_ans = 0
        for case, (q, n), r in zip(picked, reqs, resps):
            if r is None:
                continue
            n_ans += 1
            mctx.begin(case)
            mctx.outcomes[core.drvmod.outcome(r) if "miri_ub" not in r else "miri_ub"] += 1
            assess(mctx, case, n, r, "miri")
            mctx.end()
        mctx.note("miri requests answered", n_ans)
        mctx.exhaustive.append("miri stage: %d decode requests interpreted under Miri (%s)" % (n_ans, diag))
    mr = mctx.result()
    mr["hits"] = {"miri:%s" % k: v for k, v in mr["hits"].items()}
    mr["samples"] = []
    out.append(mr)
    out += fuzz_stage(__name__, tier, seed, "decode", 150, fuzz_to_cases, seeds=[bytes([i]) + b"\x01\x00\x00\x00\x00\x00\x00\x00\x00\x00" for i in range(16)], max_len=2048)
    return out


FUZZ_SEL = {
    0: ["tx_from_bytes"], 1: ["script_from_bytes"], 2: ["tx_from_compact_bytes"], 3: ["txin_from_compact_bytes"], 4: ["tx_from_json_string"], 5: ["script_from_asm_string"],
    6: ["template_from_asm_string"], 7: ["sig_from_der", "sighashsig_from_bytes", "sig_from_compact"], 8: ["ecies_from_bytes_pub", "ecies_from_bytes_nopub"],
    9: ["privkey_from_wif", "addr_from_string"], 10: ["xprv_from_string", "xpub_from_string"], 11: ["pubkey_from_bytes"], 12: ["txin_serde_json", "script_serde_json"],
    13: ["txin_from_hex", "txout_from_hex"], 14: ["xprv_path"], 15: ["tx_from_hex", "script_from_hex"],
}


def fuzz_to_cases(data, cls):
    if not data:
        return
    kinds = dict(DECODERS or [])
    for which in FUZZ_SEL[data[0] % 16]:
        if kinds.get(which, "bytes") == "bytes" and not which.endswith(("_hex", "_string", "_json", "_wif", "_path")):
            yield {"k": "dec", "which": which, "hex": data[1:].hex(), "cls": cls}
        else:
            yield {"k": "dec", "which": which, "text": data[1:].decode("utf8", "replace"), "cls": cls}
