#![no_main]
//! Input finder for C16: the bytes are a script. In-process self-consistency only (step vs run, post-error state); every artifact is
//! re-judged by the C16 monitor through bsvdrv.
use bsv::*;
use libfuzzer_sys::fuzz_target;

fuzz_target!(|data: &[u8]| {
    let script = match Script::from_bytes(data) {
        Ok(s) => s,
        Err(_) => return,
    };
    let mut a = Interpreter::from_script(&script);
    let mut last = (a.state().stack.clone(), a.state().alt_stack.clone());
    let mut steps = 0usize;
    let mut a_err = false;
    loop {
        match a.next() {
            None => break,
            Some(Ok(s)) => {
                last = (s.stack.clone(), s.alt_stack.clone());
            }
            Some(Err(_)) => {
                a_err = true;
                break;
            }
        }
        steps += 1;
        assert!(steps <= data.len() + 2, "step bound exceeded");
    }
    let post = (a.state().stack.clone(), a.state().alt_stack.clone());
    assert!(post == last, "state after the end differs from the last returned state");
    let mut b = Interpreter::from_script(&script);
    let b_err = b.run().is_err();
    assert!(a_err == b_err, "step and run disagree on the outcome");
    assert!((b.state().stack.clone(), b.state().alt_stack.clone()) == post, "step and run end with different stacks");
});
