#![no_main]
//! Input finder for C09: first byte selects a decoder, the rest is its input. No oracle here: a panic / abort / excessive allocation is an
//! artifact that the C09 monitor re-judges through bsvdrv.
use bsv::*;
use libfuzzer_sys::fuzz_target;

fuzz_target!(|data: &[u8]| {
    if data.is_empty() {
        return;
    }
    let (sel, b) = (data[0] % 16, &data[1..]);
    let text = String::from_utf8_lossy(b);
    match sel {
        0 => {
            if let Ok(mut t) = Transaction::from_bytes(b) {
                let _ = t.to_bytes();
                let _ = t.get_id_hex();
                let _ = t.get_outpoints();
            }
        }
        1 => {
            if let Ok(s) = Script::from_bytes(b) {
                let _ = s.to_bytes();
                let _ = s.to_asm_string();
                let _ = s.to_extended_asm_string();
            }
        }
        2 => {
            let _ = Transaction::from_compact_bytes(b).map(|t| t.to_bytes());
        }
        3 => {
            let _ = TxIn::from_compact_bytes(b).map(|t| t.to_bytes());
        }
        4 => {
            let _ = Transaction::from_json_string(&text).map(|t| t.to_bytes());
        }
        5 => {
            let _ = Script::from_asm_string(&text).map(|s| s.to_bytes());
        }
        6 => {
            let _ = ScriptTemplate::from_asm_string(&text);
        }
        7 => {
            let _ = Signature::from_der(b);
            let _ = SighashSignature::from_bytes(b, b"x");
            let _ = Signature::from_compact_bytes(b);
        }
        8 => {
            let _ = ECIESCiphertext::from_bytes(b, true).map(|c| c.extract_public_key());
            let _ = ECIESCiphertext::from_bytes(b, false);
        }
        9 => {
            let _ = PrivateKey::from_wif(&text);
            let _ = P2PKHAddress::from_string(&text);
        }
        10 => {
            let _ = ExtendedPrivateKey::from_string(&text);
            let _ = ExtendedPublicKey::from_string(&text);
        }
        11 => {
            let _ = PublicKey::from_bytes(b).map(|p| p.to_decompressed());
        }
        12 => {
            let _ = serde_json::from_str::<TxIn>(&text).map(|t| t.to_bytes());
            let _ = serde_json::from_str::<Script>(&text).map(|s| s.to_bytes());
        }
        13 => {
            let _ = TxIn::from_hex(&text);
            let _ = TxOut::from_hex(&text);
        }
        14 => {
            if let Ok(x) = ExtendedPrivateKey::from_seed(&[7u8; 32]) {
                let _ = x.derive_from_path(&text);
            }
        }
        _ => {
            let _ = Transaction::from_hex(&text);
            let _ = Script::from_hex(&text);
        }
    }
});
