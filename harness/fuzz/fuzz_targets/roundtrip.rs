#![no_main]
//! Input finder for C01/C02/C17: parse -> serialise -> parse fixed points and the ASM trip. Artifacts are re-judged by the monitors.
use bsv::*;
use libfuzzer_sys::fuzz_target;

fuzz_target!(|data: &[u8]| {
    if data.is_empty() {
        return;
    }
    let b = &data[1..];
    if data[0] & 1 == 0 {
        if let Ok(s) = Script::from_bytes(b) {
            let s1 = s.to_bytes();
            let s2 = Script::from_bytes(&s1).expect("normalised script is rejected").to_bytes();
            assert!(s1 == s2, "script serialisation is not a fixed point");
            let asm = s.to_asm_string();
            if let Ok(t) = Script::from_asm_string(&asm) {
                let _ = t.to_bytes();
            }
        }
    } else if let Ok(t) = Transaction::from_bytes(b) {
        let s1 = t.to_bytes().expect("serialise");
        let t2 = Transaction::from_bytes(&s1).expect("normalised transaction is rejected");
        assert!(t2.to_bytes().expect("serialise") == s1, "transaction serialisation is not a fixed point");
    }
});
