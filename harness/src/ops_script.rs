//! Script codec, push helpers, ASM text, templates.
use crate::util::*;
use bsv::*;
use serde_json::{json, Value};

pub fn dispatch(op: &str, req: &Value) -> Option<R> {
    Some(match op {
        "script_decode" => script_decode(req),
        "push_prefix" => push_prefix(req),
        "encode_pushdata" => encode_pushdata(req),
        "asm" => asm(req),
        "asm_parse" => asm_parse(req),
        "script_build" => script_build(req),
        "template" => template(req),
        _ => return None,
    })
}

pub fn bits_json(bits: &[ScriptBit]) -> Value {
    Value::Array(
        bits.iter()
            .map(|b| match b {
                ScriptBit::OpCode(c) => json!({ "op": *c as u8 }),
                ScriptBit::Push(d) => json!({ "push": hex::encode(d) }),
                ScriptBit::PushData(c, d) => json!({ "pd": *c as u8, "data": hex::encode(d) }),
                ScriptBit::If { code, pass, fail } => json!({"if": *code as u8, "pass": bits_json(pass), "fail": fail.as_ref().map(|f| bits_json(f))}),
                ScriptBit::Coinbase(d) => json!({ "cb": hex::encode(d) }),
            })
            .collect(),
    )
}

fn opcode(n: u64) -> Result<OpCodes, E> {
    use num_traits::FromPrimitive;
    OpCodes::from_u64(n).ok_or_else(|| drv(format!("no opcode {}", n)))
}

pub fn bits_from_json(v: &Value) -> Result<Vec<ScriptBit>, E> {
    let a = v.as_array().ok_or_else(|| drv("bits not an array"))?;
    let mut out = vec![];
    for t in a {
        if let Some(n) = t.get("op").and_then(|x| x.as_u64()) {
            // structural opcodes that a one-byte parse would reject (IF/ELSE/ENDIF alone) are mapped by table
            let c = match n {
                99 => OpCodes::OP_IF,
                100 => OpCodes::OP_NOTIF,
                101 => OpCodes::OP_VERIF,
                102 => OpCodes::OP_VERNOTIF,
                103 => OpCodes::OP_ELSE,
                104 => OpCodes::OP_ENDIF,
                76 => OpCodes::OP_PUSHDATA1,
                77 => OpCodes::OP_PUSHDATA2,
                78 => OpCodes::OP_PUSHDATA4,
                _ => opcode(n)?,
            };
            out.push(ScriptBit::OpCode(c));
        } else if t.get("push").is_some() {
            out.push(ScriptBit::Push(hx(t, "push")?));
        } else if let Some(n) = t.get("pd").and_then(|x| x.as_u64()) {
            let c = match n {
                76 => OpCodes::OP_PUSHDATA1,
                77 => OpCodes::OP_PUSHDATA2,
                78 => OpCodes::OP_PUSHDATA4,
                _ => opcode(n)?,
            };
            out.push(ScriptBit::PushData(c, hx(t, "data")?));
        } else if let Some(n) = t.get("if").and_then(|x| x.as_u64()) {
            let c = match n {
                99 => OpCodes::OP_IF,
                100 => OpCodes::OP_NOTIF,
                101 => OpCodes::OP_VERIF,
                102 => OpCodes::OP_VERNOTIF,
                _ => opcode(n)?,
            };
            let pass = bits_from_json(get(t, "pass")?)?;
            let fail = match t.get("fail") {
                None | Some(Value::Null) => None,
                Some(f) => Some(bits_from_json(f)?),
            };
            out.push(ScriptBit::If { code: c, pass, fail });
        } else if t.get("cb").is_some() {
            out.push(ScriptBit::Coinbase(hx(t, "cb")?));
        } else {
            return Err(drv(format!("bad bit {}", t)));
        }
    }
    Ok(out)
}

fn script_decode(req: &Value) -> R {
    let bytes = hx(req, "hex")?;
    let s = match st_opt(req, "via").unwrap_or("bytes") {
        "bytes" => Script::from_bytes(&bytes).map_err(lib)?,
        "hex" => Script::from_hex(&hex::encode(&bytes)).map_err(lib)?,
        "chunks" => {
            // split at the requested offsets
            let mut chunks = vec![];
            let mut last = 0usize;
            if let Some(c) = req.get("cuts").and_then(|x| x.as_array()) {
                for x in c {
                    let p = (x.as_u64().unwrap_or(0) as usize).min(bytes.len()).max(last);
                    chunks.push(bytes[last..p].to_vec());
                    last = p;
                }
            }
            chunks.push(bytes[last..].to_vec());
            Script::from_chunks(chunks).map_err(lib)?
        }
        v => return Err(drv(format!("via {}", v))),
    };
    let out = s.to_bytes();
    let mut o = json!({ "bytes": h(&out), "len": s.get_script_length(), "hex_eq": s.to_hex() == hex::encode(&out) });
    if !bo(req, "no_tokens") {
        o["tokens"] = bits_json(&s.to_script_bits());
    }
    if bo(req, "extras") {
        // every other way of getting bytes out of the same element list
        let bits = s.to_script_bits();
        o["static_bytes_eq"] = json!(Script::script_bits_to_bytes(&bits) == out);
        o["from_bits_eq"] = json!(Script::from_script_bits(bits.clone()).to_bytes() == out);
        let mut e = Script::default();
        e.push_array(&bits);
        o["push_array_eq"] = json!(e.to_bytes() == out);
        let mut e2 = Script::default();
        for b in &bits {
            e2.push(b.clone());
        }
        o["push_each_eq"] = json!(e2.to_bytes() == out);
        // reparse of the output (fixed point)
        o["reparse_eq"] = json!(Script::from_bytes(&out).map(|x| x.to_bytes() == out).unwrap_or(false));
    }
    if bo(req, "asm") {
        o["asm"] = json!(s.to_asm_string());
        o["xasm"] = json!(s.to_extended_asm_string());
    }
    Ok(o)
}

fn push_prefix(req: &Value) -> R {
    let n = un(req, "len")? as usize;
    Ok(json!({
        "get_pushdata_bytes": sub(|| Script::get_pushdata_bytes(n), |b| h(&b)),
        "get_pushdata_prefix_bytes": sub(|| Script::get_pushdata_prefix_bytes(n), |b| h(&b)),
    }))
}

fn encode_pushdata(req: &Value) -> R {
    // data given literally, or as (len, seed) to avoid shipping megabytes of hex
    let data: Vec<u8> = match hx_opt(req, "hex")? {
        Some(d) => d,
        None => {
            let n = un(req, "len")? as usize;
            let seed = un_opt(req, "seed").unwrap_or(1);
            let mut x = seed.wrapping_mul(6364136223846793005).wrapping_add(1442695040888963407);
            (0..n)
                .map(|_| {
                    x = x.wrapping_mul(6364136223846793005).wrapping_add(1442695040888963407);
                    (x >> 33) as u8
                })
                .collect()
        }
    };
    let enc = Script::encode_pushdata(&data).map_err(lib)?;
    let head = &enc[..enc.len().min(8)];
    let tail_ok = enc.len() >= data.len() && enc[enc.len() - data.len()..] == data[..];
    let parsed = sub(
        || Script::from_bytes(&enc),
        |s| {
            let bits = s.to_script_bits();
            let kinds: Vec<Value> = bits
                .iter()
                .take(4)
                .map(|b| match b {
                    ScriptBit::Push(d) => json!({"kind": "push", "len": d.len(), "eq": *d == data}),
                    ScriptBit::PushData(c, d) => json!({"kind": "pd", "code": *c as u8, "len": d.len(), "eq": *d == data}),
                    ScriptBit::OpCode(c) => json!({"kind": "op", "code": *c as u8}),
                    _ => json!({"kind": "other"}),
                })
                .collect();
            json!({"n": bits.len(), "bits": kinds, "rt": s.to_bytes() == enc})
        },
    );
    Ok(json!({"head": h(head), "enc_len": enc.len(), "data_len": data.len(), "tail_ok": tail_ok, "parsed": parsed}))
}

fn asm(req: &Value) -> R {
    let bytes = hx(req, "hex")?;
    let s = Script::from_bytes(&bytes).map_err(lib)?;
    let a = s.to_asm_string();
    let x = s.to_extended_asm_string();
    let rt = sub(|| Script::from_asm_string(&a), |s2| h(&s2.to_bytes()));
    let mut o = json!({"bytes": h(&s.to_bytes()), "rt": rt, "impl_eq": s.to_asm_string_impl(false) == a && s.to_asm_string_impl(true) == x});
    if !bo(req, "no_text") {
        o["asm"] = json!(a);
        o["xasm"] = json!(x);
    } else {
        o["asm_len"] = json!(a.len());
    }
    Ok(o)
}

fn asm_parse(req: &Value) -> R {
    let t = st(req, "text")?;
    let s = Script::from_asm_string(t).map_err(lib)?;
    Ok(json!({"bytes": h(&s.to_bytes()), "tokens": bits_json(&s.to_script_bits())}))
}

fn script_build(req: &Value) -> R {
    let bits = bits_from_json(get(req, "bits")?)?;
    let mut s = Script::from_script_bits(bits.clone());
    if bo(req, "via_push") {
        s = Script::default();
        for b in &bits {
            s.push(b.clone());
        }
    }
    Ok(json!({"bytes": h(&s.to_bytes()), "asm": s.to_asm_string(), "tokens": bits_json(&s.to_script_bits())}))
}

fn matches_json(m: Vec<(MatchDataTypes, Vec<u8>)>) -> Value {
    Value::Array(m.into_iter().map(|(k, d)| json!([k.to_string(), hex::encode(d)])).collect())
}

fn template(req: &Value) -> R {
    let script = Script::from_bytes(&hx(req, "script")?).map_err(|e| drv(format!("script parse: {}", e)))?;
    let vi = bo(req, "via_impl");
    let tmpl = match st_opt(req, "tmpl") {
        Some(t) if vi => ScriptTemplate::from_asm_string_impl(t),
        Some(t) => ScriptTemplate::from_asm_string(t),
        None => {
            let src = Script::from_bytes(&hx(req, "tmpl_script")?).map_err(|e| drv(format!("tmpl_script parse: {}", e)))?;
            if vi {
                ScriptTemplate::from_script_impl(&src)
            } else {
                ScriptTemplate::from_script(&src)
            }
        }
    };
    let tmpl = match tmpl {
        Ok(t) => t,
        Err(e) => return Ok(json!({ "tmpl_err": e.to_string() })),
    };
    if vi {
        return Ok(json!({
            "matches": sub(|| script.match_impl(&tmpl), matches_json),
            "is_match": sub0(|| script.test_impl(&tmpl), |b| json!(b)),
        }));
    }
    Ok(json!({
        "matches": sub(|| script.matches(&tmpl), matches_json),
        "is_match": sub0(|| script.is_match(&tmpl), |b| json!(b)),
    }))
}
