//! Counting allocator + allocation guard. Stores no addresses, so it hides nothing from ASan/LSan/memcheck.
use std::alloc::{GlobalAlloc, Layout, System};
use std::sync::atomic::{AtomicI32, AtomicU64, AtomicUsize, Ordering::Relaxed};

pub struct Counting;

pub static LIVE: AtomicUsize = AtomicUsize::new(0);
pub static PEAK: AtomicUsize = AtomicUsize::new(0);
pub static MAXREQ: AtomicUsize = AtomicUsize::new(0);
pub static NALLOC: AtomicUsize = AtomicUsize::new(0);
/// usize::MAX = disarmed
pub static LIMIT: AtomicUsize = AtomicUsize::new(usize::MAX);
pub static BASE: AtomicUsize = AtomicUsize::new(0);
pub static OUT_FD: AtomicI32 = AtomicI32::new(1);
pub static CUR_ID: AtomicU64 = AtomicU64::new(0);

extern "C" {
    fn write(fd: i32, buf: *const u8, n: usize) -> isize;
    fn _exit(code: i32) -> !;
}

fn put_num(buf: &mut [u8], pos: &mut usize, mut n: u64) {
    let mut tmp = [0u8; 20];
    let mut i = 0;
    if n == 0 {
        tmp[0] = b'0';
        i = 1;
    }
    while n > 0 {
        tmp[i] = b'0' + (n % 10) as u8;
        n /= 10;
        i += 1;
    }
    while i > 0 {
        i -= 1;
        buf[*pos] = tmp[i];
        *pos += 1;
    }
}

fn put_str(buf: &mut [u8], pos: &mut usize, s: &[u8]) {
    for b in s {
        buf[*pos] = *b;
        *pos += 1;
    }
}

#[cold]
fn guard_trip(size: usize, delta: usize, limit: usize) -> ! {
    let mut buf = [0u8; 256];
    let mut p = 0usize;
    put_str(&mut buf, &mut p, b"{\"id\":");
    put_num(&mut buf, &mut p, CUR_ID.load(Relaxed));
    put_str(&mut buf, &mut p, b",\"alloc_guard\":{\"size\":");
    put_num(&mut buf, &mut p, size as u64);
    put_str(&mut buf, &mut p, b",\"delta\":");
    put_num(&mut buf, &mut p, delta as u64);
    put_str(&mut buf, &mut p, b",\"limit\":");
    put_num(&mut buf, &mut p, limit as u64);
    put_str(&mut buf, &mut p, b"}}\n");
    unsafe {
        write(OUT_FD.load(Relaxed), buf.as_ptr(), p);
        #[cfg(miri)]
        std::process::exit(86);
        #[cfg(not(miri))]
        _exit(86)
    }
}

#[inline]
fn note(sz: usize) {
    let live = LIVE.fetch_add(sz, Relaxed).wrapping_add(sz);
    NALLOC.fetch_add(1, Relaxed);
    if live > PEAK.load(Relaxed) {
        PEAK.store(live, Relaxed);
    }
    if sz > MAXREQ.load(Relaxed) {
        MAXREQ.store(sz, Relaxed);
    }
    let limit = LIMIT.load(Relaxed);
    if limit != usize::MAX {
        let base = BASE.load(Relaxed);
        if live > base && live - base > limit {
            LIMIT.store(usize::MAX, Relaxed);
            guard_trip(sz, live - base, limit);
        }
    }
}

unsafe impl GlobalAlloc for Counting {
    unsafe fn alloc(&self, l: Layout) -> *mut u8 {
        note(l.size());
        System.alloc(l)
    }
    unsafe fn alloc_zeroed(&self, l: Layout) -> *mut u8 {
        note(l.size());
        System.alloc_zeroed(l)
    }
    unsafe fn dealloc(&self, p: *mut u8, l: Layout) {
        LIVE.fetch_sub(l.size(), Relaxed);
        System.dealloc(p, l)
    }
    unsafe fn realloc(&self, p: *mut u8, l: Layout, new: usize) -> *mut u8 {
        if new > l.size() {
            note(new - l.size());
        } else {
            LIVE.fetch_sub(l.size() - new, Relaxed);
        }
        System.realloc(p, l, new)
    }
}

pub fn begin(id: u64, guard: Option<usize>) {
    CUR_ID.store(id, Relaxed);
    let live = LIVE.load(Relaxed);
    PEAK.store(live, Relaxed);
    MAXREQ.store(0, Relaxed);
    BASE.store(live, Relaxed);
    if let Some(g) = guard {
        LIMIT.store(g, Relaxed);
    }
}

/// returns (peak delta, largest single request)
pub fn end() -> (usize, usize) {
    LIMIT.store(usize::MAX, Relaxed);
    let base = BASE.load(Relaxed);
    let peak = PEAK.load(Relaxed);
    (peak.saturating_sub(base), MAXREQ.load(Relaxed))
}
