//! Request field access + panic capture helpers. No oracle logic lives in the driver.
use serde_json::{json, Value};
use std::panic::{catch_unwind, AssertUnwindSafe};
use std::sync::Mutex;

pub type V = Value;

/// Lib = the library returned Err (Display string); Drv = the request itself was malformed (harness bug).
#[derive(Debug)]
pub enum E {
    Lib(String),
    Drv(String),
}
pub type R = Result<V, E>;

pub fn lib<T: std::fmt::Display>(e: T) -> E {
    E::Lib(e.to_string())
}
pub fn drv<T: std::fmt::Display>(e: T) -> E {
    E::Drv(e.to_string())
}

pub static LAST_PANIC: Mutex<Option<(String, String)>> = Mutex::new(None);

pub fn install_hook() {
    std::panic::set_hook(Box::new(|info| {
        let msg = if let Some(s) = info.payload().downcast_ref::<&str>() {
            s.to_string()
        } else if let Some(s) = info.payload().downcast_ref::<String>() {
            s.clone()
        } else {
            "<non-string panic payload>".to_string()
        };
        let file = info.location().map(|l| l.file().to_string()).unwrap_or_default();
        if let Ok(mut g) = LAST_PANIC.lock() {
            *g = Some((msg, file));
        }
    }));
}

pub fn take_panic() -> V {
    let p = LAST_PANIC.lock().ok().and_then(|mut g| g.take());
    match p {
        Some((msg, file)) => json!({"msg": msg, "file": file}),
        None => json!({"msg": "<unknown>", "file": ""}),
    }
}

/// Run one library call; a panic becomes Err(panic-json).
pub fn guarded<T>(f: impl FnOnce() -> T) -> Result<T, V> {
    match catch_unwind(AssertUnwindSafe(f)) {
        Ok(v) => Ok(v),
        Err(_) => Err(take_panic()),
    }
}

/// Outcome of a sub-call as JSON: {"ok":..} | {"err":..} | {"panic":{..}}
pub fn sub<T, Er: std::fmt::Display>(f: impl FnOnce() -> Result<T, Er>, conv: impl FnOnce(T) -> V) -> V {
    match guarded(f) {
        Ok(Ok(v)) => json!({ "ok": conv(v) }),
        Ok(Err(e)) => json!({ "err": e.to_string() }),
        Err(p) => json!({ "panic": p }),
    }
}

/// Infallible sub-call
pub fn sub0<T>(f: impl FnOnce() -> T, conv: impl FnOnce(T) -> V) -> V {
    match guarded(f) {
        Ok(v) => json!({ "ok": conv(v) }),
        Err(p) => json!({ "panic": p }),
    }
}

pub fn h(b: &[u8]) -> V {
    V::String(hex::encode(b))
}

pub fn get<'a>(v: &'a V, k: &str) -> Result<&'a V, E> {
    v.get(k).ok_or_else(|| drv(format!("missing field {}", k)))
}
pub fn hx(v: &V, k: &str) -> Result<Vec<u8>, E> {
    let s = get(v, k)?.as_str().ok_or_else(|| drv(format!("field {} not a string", k)))?;
    hex::decode(s).map_err(|e| drv(format!("field {} bad hex: {}", k, e)))
}
pub fn hx_opt(v: &V, k: &str) -> Result<Option<Vec<u8>>, E> {
    match v.get(k) {
        None | Some(V::Null) => Ok(None),
        Some(_) => Ok(Some(hx(v, k)?)),
    }
}
pub fn st<'a>(v: &'a V, k: &str) -> Result<&'a str, E> {
    get(v, k)?.as_str().ok_or_else(|| drv(format!("field {} not a string", k)))
}
pub fn st_opt<'a>(v: &'a V, k: &str) -> Option<&'a str> {
    v.get(k).and_then(|x| x.as_str())
}
pub fn un(v: &V, k: &str) -> Result<u64, E> {
    get(v, k)?.as_u64().ok_or_else(|| drv(format!("field {} not a u64", k)))
}
pub fn un_opt(v: &V, k: &str) -> Option<u64> {
    v.get(k).and_then(|x| x.as_u64())
}
pub fn bo(v: &V, k: &str) -> bool {
    v.get(k).and_then(|x| x.as_bool()).unwrap_or(false)
}
pub fn arr<'a>(v: &'a V, k: &str) -> Result<&'a Vec<V>, E> {
    get(v, k)?.as_array().ok_or_else(|| drv(format!("field {} not an array", k)))
}
