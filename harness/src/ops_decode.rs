//! C09: every public entry point that decodes external data, outcome only (ok / err / panic), plus a "touch" of the decoded value
//! through the library's own accessors.
use crate::util::*;
use bsv::*;
use serde_json::{json, Value};

pub fn dispatch(op: &str, req: &Value) -> Option<R> {
    Some(match op {
        "decode" => decode(req),
        "decoders" => Ok(json!(DECODERS)),
        _ => return None,
    })
}

pub const DECODERS: &[(&str, &str)] = &[
    ("tx_from_bytes", "bytes"),
    ("tx_from_hex", "text"),
    ("tx_from_compact_bytes", "bytes"),
    ("tx_from_compact_hex", "text"),
    ("tx_from_json_string", "text"),
    ("txin_from_hex", "text"),
    ("txin_from_compact_bytes", "bytes"),
    ("txin_from_compact_hex", "text"),
    ("txin_from_outpoint_bytes", "bytes"),
    ("txin_serde_json", "text"),
    ("txout_from_hex", "text"),
    ("txout_serde_json", "text"),
    ("script_from_bytes", "bytes"),
    ("script_from_hex", "text"),
    ("script_from_asm_string", "text"),
    ("script_from_chunks", "bytes"),
    ("script_serde_json", "text"),
    ("template_from_asm_string", "text"),
    ("privkey_from_bytes", "bytes"),
    ("privkey_from_hex", "text"),
    ("privkey_from_wif", "text"),
    ("pubkey_from_bytes", "bytes"),
    ("pubkey_from_hex", "text"),
    ("pubkey_serde_json", "text"),
    ("xprv_from_string", "text"),
    ("xpub_from_string", "text"),
    ("xprv_path", "text"),
    ("xpub_path", "text"),
    ("xprv_from_seed", "bytes"),
    ("addr_from_string", "text"),
    ("addr_from_pubkey_hash", "bytes"),
    ("addr_serde_json", "text"),
    ("sig_from_der", "bytes"),
    ("sig_from_hex_der", "text"),
    ("sig_from_compact", "bytes"),
    ("sighashsig_from_bytes", "bytes"),
    ("ecies_from_bytes_pub", "bytes"),
    ("ecies_from_bytes_nopub", "bytes"),
    ("hash_serde_json", "text"),
    ("kdf_serde_json", "text"),
    ("verify_hashbuf_digest", "bytes"),
    ("sign_digest", "bytes"),
    ("recover_from_digest", "bytes"),
    ("recover_from_digest_inner", "bytes"),
    ("recover_from_message_inner", "bytes"),
    ("aes_key_iv", "bytes"),
];

fn one_key() -> PrivateKey {
    let mut k = [0u8; 32];
    k[31] = 7;
    PrivateKey::from_bytes(&k).unwrap()
}

fn touch<T>(f: impl FnOnce() -> T) -> Value {
    match guarded(f) {
        Ok(_) => json!("ok"),
        Err(p) => json!({ "panic": p }),
    }
}

fn decode(req: &Value) -> R {
    let which = st(req, "which")?;
    let kind = DECODERS.iter().find(|(n, _)| *n == which).map(|(_, k)| *k).ok_or_else(|| drv(format!("unknown decoder {}", which)))?;
    // `run`: the input is built here as pre + unit * n + post (long repeated inputs need not be shipped)
    let mut built_text = String::new();
    let mut built_bytes: Vec<u8> = vec![];
    if let Some(run) = req.get("run") {
        let n = un(run, "n")? as usize;
        if kind == "bytes" {
            built_bytes.extend(hx(run, "pre")?);
            let u = hx(run, "unit")?;
            for _ in 0..n {
                built_bytes.extend_from_slice(&u);
            }
            built_bytes.extend(hx(run, "post")?);
        } else {
            built_text.push_str(st(run, "pre")?);
            let u = st(run, "unit")?;
            for _ in 0..n {
                built_text.push_str(u);
            }
            built_text.push_str(st(run, "post")?);
        }
    }
    let bytes: Vec<u8> = if req.get("run").is_some() {
        built_bytes
    } else if kind == "bytes" {
        hx(req, "hex")?
    } else {
        vec![]
    };
    let text: &str = if req.get("run").is_some() {
        &built_text
    } else if kind == "text" {
        st(req, "text")?
    } else {
        ""
    };
    let b = &bytes[..];
    // every arm: Result<touch-json, lib error string>
    let r: Result<Value, String> = match which {
        "tx_from_bytes" => Transaction::from_bytes(b).map(|mut t| touch(|| (t.to_bytes().is_ok(), t.get_id_hex().is_ok(), t.get_outpoints().len(), t.get_size().is_ok(), t.is_coinbase()))).map_err(|e| e.to_string()),
        "tx_from_hex" => Transaction::from_hex(text).map(|t| touch(|| t.to_bytes().is_ok())).map_err(|e| e.to_string()),
        "tx_from_compact_bytes" => Transaction::from_compact_bytes(b).map(|t| touch(|| (t.to_bytes().is_ok(), t.to_compact_bytes().is_ok(), t.to_json_string().is_ok()))).map_err(|e| e.to_string()),
        "tx_from_compact_hex" => Transaction::from_compact_hex(text).map(|t| touch(|| t.to_bytes().is_ok())).map_err(|e| e.to_string()),
        "tx_from_json_string" => Transaction::from_json_string(text).map(|t| touch(|| (t.to_bytes().is_ok(), t.to_json_string().is_ok(), t.to_compact_bytes().is_ok()))).map_err(|e| e.to_string()),
        "txin_from_hex" => TxIn::from_hex(text).map(|t| touch(|| (t.to_bytes().is_ok(), t.get_finalised_script().is_ok()))).map_err(|e| e.to_string()),
        "txin_from_compact_bytes" => TxIn::from_compact_bytes(b).map(|t| touch(|| (t.to_bytes().is_ok(), t.get_finalised_script().is_ok()))).map_err(|e| e.to_string()),
        "txin_from_compact_hex" => TxIn::from_compact_hex(text).map(|t| touch(|| t.to_bytes().is_ok())).map_err(|e| e.to_string()),
        "txin_from_outpoint_bytes" => TxIn::from_outpoint_bytes(b).map(|t| touch(|| t.to_bytes().is_ok())).map_err(|e| e.to_string()),
        "txin_serde_json" => serde_json::from_str::<TxIn>(text).map(|t| touch(|| t.to_bytes().is_ok())).map_err(|e| e.to_string()),
        "txout_from_hex" => TxOut::from_hex(text).map(|t| touch(|| t.to_bytes().is_ok())).map_err(|e| e.to_string()),
        "txout_serde_json" => serde_json::from_str::<TxOut>(text).map(|t| touch(|| t.to_bytes().is_ok())).map_err(|e| e.to_string()),
        "script_from_bytes" => Script::from_bytes(b).map(|s| touch(|| (s.to_bytes().len(), s.to_asm_string().len(), s.to_extended_asm_string().len(), s.to_scripthash_hex().len()))).map_err(|e| e.to_string()),
        "script_from_hex" => Script::from_hex(text).map(|s| touch(|| s.to_bytes().len())).map_err(|e| e.to_string()),
        "script_from_asm_string" => Script::from_asm_string(text).map(|s| touch(|| (s.to_bytes().len(), s.to_asm_string().len()))).map_err(|e| e.to_string()),
        "script_from_chunks" => {
            let mid = b.len() / 2;
            Script::from_chunks(vec![b[..mid].to_vec(), b[mid..].to_vec()]).map(|s| touch(|| s.to_bytes().len())).map_err(|e| e.to_string())
        }
        "script_serde_json" => serde_json::from_str::<Script>(text).map(|s| touch(|| (s.to_bytes().len(), s.to_asm_string().len()))).map_err(|e| e.to_string()),
        "template_from_asm_string" => ScriptTemplate::from_asm_string(text)
            .map(|t| touch(|| Script::from_bytes(&[0x76, 0xa9, 0x14, 1, 2, 3, 4, 5, 6, 7, 8, 9, 10, 11, 12, 13, 14, 15, 16, 17, 18, 19, 20, 0x88, 0xac]).map(|s| s.is_match(&t))))
            .map_err(|e| e.to_string()),
        "privkey_from_bytes" => PrivateKey::from_bytes(b).map(|k| touch(|| (k.to_wif().is_ok(), k.to_public_key().is_ok()))).map_err(|e| e.to_string()),
        "privkey_from_hex" => PrivateKey::from_hex(text).map(|k| touch(|| k.to_wif().is_ok())).map_err(|e| e.to_string()),
        "privkey_from_wif" => PrivateKey::from_wif(text).map(|k| touch(|| (k.to_wif().is_ok(), k.to_public_key().is_ok()))).map_err(|e| e.to_string()),
        "pubkey_from_bytes" => PublicKey::from_bytes(b)
            .map(|p| {
                json!({
                    "to_decompressed": touch(|| p.to_decompressed().is_ok()),
                    "to_compressed": touch(|| p.to_compressed().is_ok()),
                    "address": touch(|| p.to_p2pkh_address().is_ok()),
                    "verify": touch(|| p.verify_message(b"m", &one_key().sign_message(b"m").unwrap()).is_ok()),
                    "ecdh": touch(|| ECDH::derive_shared_key(&one_key(), &p).is_ok()),
                    "encrypt": touch(|| ECIES::encrypt(b"m", &one_key(), &p, false).is_ok()),
                })
            })
            .map_err(|e| e.to_string()),
        "pubkey_from_hex" => PublicKey::from_hex(text).map(|p| touch(|| p.to_decompressed().is_ok())).map_err(|e| e.to_string()),
        "pubkey_serde_json" => serde_json::from_str::<PublicKey>(text).map(|p| touch(|| p.to_decompressed().is_ok())).map_err(|e| e.to_string()),
        "xprv_from_string" => ExtendedPrivateKey::from_string(text).map(|x| touch(|| (x.to_string().is_ok(), x.derive(0).is_ok(), x.derive(0x80000000).is_ok()))).map_err(|e| e.to_string()),
        "xpub_from_string" => ExtendedPublicKey::from_string(text).map(|x| touch(|| (x.to_string().is_ok(), x.derive(0).is_ok()))).map_err(|e| e.to_string()),
        "xprv_path" => ExtendedPrivateKey::from_seed(&[7u8; 32]).and_then(|x| x.derive_from_path(text)).map(|x| touch(|| x.to_string().is_ok())).map_err(|e| e.to_string()),
        "xpub_path" => ExtendedPublicKey::from_seed(&[7u8; 32]).and_then(|x| x.derive_from_path(text)).map(|x| touch(|| x.to_string().is_ok())).map_err(|e| e.to_string()),
        "xprv_from_seed" => ExtendedPrivateKey::from_seed(b).map(|x| touch(|| x.to_string().is_ok())).map_err(|e| e.to_string()),
        "addr_from_string" => P2PKHAddress::from_string(text).map(|a| touch(|| (a.to_string().is_ok(), a.get_locking_script().is_ok()))).map_err(|e| e.to_string()),
        "addr_from_pubkey_hash" => P2PKHAddress::from_pubkey_hash(b).map(|a| touch(|| a.to_string().is_ok())).map_err(|e| e.to_string()),
        "addr_serde_json" => serde_json::from_str::<P2PKHAddress>(text).map(|a| touch(|| a.to_string().is_ok())).map_err(|e| e.to_string()),
        "sig_from_der" => Signature::from_der(b).map(|s| touch(|| (s.to_der_bytes().len(), s.to_compact_bytes(None).len()))).map_err(|e| e.to_string()),
        "sig_from_hex_der" => Signature::from_hex_der(text).map(|s| touch(|| s.to_der_bytes().len())).map_err(|e| e.to_string()),
        "sig_from_compact" => Signature::from_compact_bytes(b)
            .map(|s| touch(|| (s.to_der_bytes().len(), s.to_compact_bytes(None).len(), s.recover_public_key(b"m", SigningHash::Sha256).is_ok())))
            .map_err(|e| e.to_string()),
        "sighashsig_from_bytes" => SighashSignature::from_bytes(b, b"x").map(|s| touch(|| s.to_bytes().is_ok())).map_err(|e| e.to_string()),
        "ecies_from_bytes_pub" => ECIESCiphertext::from_bytes(b, true)
            .map(|c| touch(|| (c.to_bytes().len(), c.extract_public_key().map(|p| ECIES::decrypt(&c, &one_key(), &p).is_ok()).is_ok())))
            .map_err(|e| e.to_string()),
        "ecies_from_bytes_nopub" => ECIESCiphertext::from_bytes(b, false)
            .map(|c| touch(|| (c.to_bytes().len(), c.extract_public_key().is_ok(), ECIES::decrypt(&c, &one_key(), &one_key().to_public_key().unwrap()).is_ok())))
            .map_err(|e| e.to_string()),
        "hash_serde_json" => serde_json::from_str::<Hash>(text).map(|x| touch(|| x.to_hex().len())).map_err(|e| e.to_string()),
        "kdf_serde_json" => serde_json::from_str::<KDF>(text).map(|x| touch(|| x.get_salt().len())).map_err(|e| e.to_string()),
        "verify_hashbuf_digest" => {
            let k = one_key();
            let sig = k.sign_message(b"m").map_err(|e| drv(e))?;
            ECDSA::verify_hashbuf(b, &k.to_public_key().map_err(drv)?, &sig).map(|v| json!(v)).map_err(|e| e.to_string())
        }
        "sign_digest" => ECDSA::sign_digest_with_deterministic_k(&one_key(), b).map(|s| touch(|| s.to_der_bytes().len())).map_err(|e| e.to_string()),
        "recover_from_digest" => {
            let k = one_key();
            let sig = k.sign_message(b"m").map_err(drv)?;
            sig.recover_public_key_from_digest(b).map(|p| touch(|| p.to_bytes().is_ok())).map_err(|e| e.to_string())
        }
        "recover_from_digest_inner" => {
            // the public inner function behind recover_public_key_from_digest, on a signature that carries recovery info
            let k = one_key();
            let sig = k.sign_message(b"m").map_err(drv)?;
            sig.get_public_key_from_digest(b).map(|p| touch(|| p.to_bytes().is_ok())).map_err(|e| e.to_string())
        }
        "recover_from_message_inner" => {
            let k = one_key();
            let sig = k.sign_message(b"m").map_err(drv)?;
            sig.get_public_key(b, SigningHash::Sha256).map(|p| touch(|| p.to_bytes().is_ok())).map_err(|e| e.to_string())
        }
        "aes_key_iv" => {
            // input layout: [mode:1][dir:1][klen:1][ivlen:1][key][iv][msg]
            if b.len() < 4 {
                return Err(drv("aes_key_iv needs >= 4 bytes"));
            }
            let algo = match b[0] % 4 {
                0 => AESAlgorithms::AES128_CBC,
                1 => AESAlgorithms::AES256_CBC,
                2 => AESAlgorithms::AES128_CTR,
                _ => AESAlgorithms::AES256_CTR,
            };
            let rest = &b[4..];
            let kl = (b[2] as usize).min(rest.len());
            let il = (b[3] as usize).min(rest.len() - kl);
            let (key, iv, msg) = (&rest[..kl], &rest[kl..kl + il], &rest[kl + il..]);
            if b[1] % 2 == 0 {
                AES::encrypt(key, iv, msg, algo).map(|v| json!(v.len())).map_err(|e| e.to_string())
            } else {
                AES::decrypt(key, iv, msg, algo).map(|v| json!(v.len())).map_err(|e| e.to_string())
            }
        }
        _ => return Err(drv(format!("decoder {} not wired", which))),
    };
    match r {
        Ok(t) => Ok(json!({ "accepted": true, "touch": t })),
        Err(e) => Err(E::Lib(e)),
    }
}
