//! Transaction-level ops: wire codec, construction API, sighash, signing, mutation histories, JSON/CBOR.
use crate::util::*;
use bsv::*;
use serde_json::{json, Value};
use std::convert::TryFrom;

pub fn dispatch(op: &str, req: &Value) -> Option<R> {
    Some(match op {
        "tx_decode" => tx_decode(req),
        "tx_build" => tx_build(req),
        "txin_decode" => txin_decode(req),
        "txin_hist" => txin_hist(req),
        "txout_decode" => txout_decode(req),
        "varint" => varint(req),
        "sighash" => sighash(req),
        "tx_sign" => tx_sign(req),
        "history" => history(req),
        "tx_codec" => tx_codec(req),
        "txin_codec" => txin_codec(req),
        "criteria" => criteria(req),
        "docs" => docs(req),
        _ => return None,
    })
}

fn dump_in(i: usize, x: &TxIn) -> Value {
    json!({
        "i": i,
        "txid_be": h(&x.get_prev_tx_id(None)),
        "txid_le": h(&x.get_prev_tx_id(Some(true))),
        "txid_hex_be": x.get_prev_tx_id_hex(None),
        "vout": x.get_vout(),
        "seq": x.get_sequence(),
        "seq_bytes": h(&x.get_sequence_as_bytes()),
        "script": x.get_unlocking_script_hex(),
        "script2": h(&x.get_unlocking_script().to_bytes()),
        "script_size": x.get_unlocking_script_size(),
        "coinbase": x.is_coinbase(),
        "satoshis": x.get_satoshis(),
        "locking": x.get_locking_script_bytes().map(|b| hex::encode(b)),
        "outpoint_le": h(&x.get_outpoint_bytes(Some(true))),
        "outpoint_hex_be": x.get_outpoint_hex(None),
    })
}

fn dump_out(i: usize, x: &TxOut) -> Value {
    json!({
        "i": i,
        "value": x.get_satoshis(),
        "value_bytes": h(&x.get_satoshis_as_bytes()),
        "script": x.get_script_pub_key_hex(),
        "script2": h(&x.get_script_pub_key().to_bytes()),
        "size": x.get_script_pub_key_size(),
    })
}

pub fn dump_tx(tx: &mut Transaction, req: &Value) -> R {
    let n_in = tx.get_ninputs();
    let n_out = tx.get_noutputs();
    let pick = |key: &str, n: usize| -> Vec<usize> {
        match req.get(key).and_then(|x| x.as_array()) {
            Some(a) => a.iter().filter_map(|x| x.as_u64()).map(|x| x as usize).filter(|x| *x < n).collect(),
            None => (0..n).collect(),
        }
    };
    let idx_in = pick("idx_in", n_in);
    let idx_out = pick("idx_out", n_out);
    let bytes = tx.to_bytes().map_err(lib)?;
    let mut o = json!({
        "bytes": h(&bytes),
        "hex_eq": tx.to_hex().map_err(lib)? == hex::encode(&bytes),
        "id": tx.get_id_hex().map_err(lib)?,
        "id_bytes": h(&tx.get_id_bytes().map_err(lib)?),
        "version": tx.get_version(),
        "locktime": tx.get_n_locktime(),
        "locktime_bytes": h(&tx.get_n_locktime_as_bytes()),
        "n_in": n_in,
        "n_out": n_out,
        "size": tx.get_size().map_err(lib)?,
        "is_coinbase": tx.is_coinbase(),
    });
    if bo(req, "totals") {
        o["sat_out"] = json!(tx.satoshis_out());
        o["sat_in"] = json!(tx.satoshis_in());
    }
    let ops = tx.get_outpoints();
    o["n_outpoints"] = json!(ops.len());
    o["outpoints"] = Value::Array(idx_in.iter().map(|i| h(&ops[*i])).collect());
    o["ins"] = Value::Array(idx_in.iter().map(|i| dump_in(*i, &tx.get_input(*i).unwrap())).collect());
    o["outs"] = Value::Array(idx_out.iter().map(|i| dump_out(*i, &tx.get_output(*i).unwrap())).collect());
    o["oob"] = json!([tx.get_input(n_in).is_none(), tx.get_output(n_out).is_none()]);
    Ok(o)
}

fn tx_decode(req: &Value) -> R {
    let bytes = hx(req, "hex")?;
    let mut tx = if bo(req, "via_hex") { Transaction::from_hex(&hex::encode(&bytes)).map_err(lib)? } else { Transaction::from_bytes(&bytes).map_err(lib)? };
    dump_tx(&mut tx, req)
}

pub fn mk_script(v: &Value, coinbase: bool) -> Result<Script, E> {
    let b = hx(v, "script")?;
    if coinbase {
        Script::from_coinbase_bytes(&b).map_err(lib)
    } else {
        Script::from_bytes(&b).map_err(lib)
    }
}

pub fn mk_txin(v: &Value) -> Result<TxIn, E> {
    let txid = hx(v, "txid")?;
    let vout = un(v, "vout")? as u32;
    let script = mk_script(v, bo(v, "coinbase"))?;
    let seq = un_opt(v, "seq").map(|x| x as u32);
    let mut t = TxIn::new(&txid, vout, &script, seq);
    if let Some(s) = un_opt(v, "satoshis") {
        t.set_satoshis(s);
    }
    if let Some(l) = hx_opt(v, "locking")? {
        t.set_locking_script(&Script::from_bytes(&l).map_err(lib)?);
    }
    Ok(t)
}

pub fn mk_txout(v: &Value) -> Result<TxOut, E> {
    let value = un(v, "value")?;
    let script = mk_script(v, false)?;
    Ok(TxOut::new(value, &script))
}

fn tx_build(req: &Value) -> R {
    let version = un(req, "version")? as u32;
    let locktime = un(req, "locktime")? as u32;
    let ins: Result<Vec<TxIn>, E> = arr(req, "ins")?.iter().map(mk_txin).collect();
    let outs: Result<Vec<TxOut>, E> = arr(req, "outs")?.iter().map(mk_txout).collect();
    let (ins, outs) = (ins?, outs?);
    let method = st_opt(req, "method").unwrap_or("add");
    let mut tx = Transaction::new(version, locktime);
    match method {
        "add" => {
            for i in &ins {
                tx.add_input(i);
            }
            for o in &outs {
                tx.add_output(o);
            }
        }
        "adds" => {
            tx.add_inputs(ins.clone());
            tx.add_outputs(outs.clone());
        }
        "prepend" => {
            for i in ins.iter().rev() {
                tx.prepend_input(i);
            }
            for o in outs.iter().rev() {
                tx.prepend_output(o);
            }
        }
        "insert" => {
            // build by inserting at the end position each time
            for (k, i) in ins.iter().enumerate() {
                tx.insert_input(k, i);
            }
            for (k, o) in outs.iter().enumerate() {
                tx.insert_output(k, o);
            }
        }
        "setters" => {
            // default tx, then set version/locktime through the setters
            tx = Transaction::default();
            tx.set_version(version);
            tx.set_nlocktime(locktime);
            for i in &ins {
                // build each input through the TxIn setters as well
                let mut t = TxIn::default();
                t.set_prev_tx_id(&i.get_prev_tx_id(None));
                t.set_vout(i.get_vout());
                t.set_unlocking_script(&i.get_unlocking_script());
                t.set_sequence(i.get_sequence());
                tx.add_input(&t);
            }
            for o in &outs {
                tx.add_output(o);
            }
        }
        m => return Err(drv(format!("unknown method {}", m))),
    }
    dump_tx(&mut tx, req)
}

fn txin_decode(req: &Value) -> R {
    let bytes = hx(req, "hex")?;
    let t = TxIn::from_hex(&hex::encode(&bytes)).map_err(lib)?;
    let mut o = dump_in(0, &t);
    o["bytes"] = h(&t.to_bytes().map_err(lib)?);
    o["hex_eq"] = json!(t.to_hex().map_err(lib)? == hex::encode(t.to_bytes().map_err(lib)?));
    Ok(o)
}

/// One live TxIn (parsed from `hex` or built from `new`), a sequence of setter calls, and the full accessor dump after every step;
/// after every step the input is also put into an otherwise empty transaction (is_coinbase / bytes at transaction level).
fn txin_hist(req: &Value) -> R {
    let mut t = match hx_opt(req, "hex")? {
        Some(b) => TxIn::from_hex(&hex::encode(&b)).map_err(lib)?,
        None => mk_txin(get(req, "new")?)?,
    };
    let snap = |t: &TxIn| -> R {
        let mut o = dump_in(0, t);
        let b = t.to_bytes().map_err(lib)?;
        o["bytes"] = h(&b);
        o["reparse_coinbase"] = sub(|| TxIn::from_hex(&hex::encode(&b)), |x| json!(x.is_coinbase()));
        let mut tx = Transaction::new(1, 0);
        tx.add_input(t);
        o["tx_coinbase"] = json!(tx.is_coinbase());
        o["tx_coinbase_impl"] = json!(tx.is_coinbase_impl());
        o["tx_bytes"] = sub(|| tx.to_bytes(), |b| h(&b));
        o["clone_coinbase"] = json!(t.clone().is_coinbase());
        Ok(o)
    };
    let mut out = vec![snap(&t)?];
    for st_ in arr(req, "steps")? {
        match st(st_, "op")? {
            "set_prev_tx_id" => t.set_prev_tx_id(&hx(st_, "txid")?),
            "set_vout" => t.set_vout(un(st_, "v")? as u32),
            "set_sequence" => t.set_sequence(un(st_, "v")? as u32),
            "set_unlocking_script" => t.set_unlocking_script(&mk_script(st_, bo(st_, "coinbase"))?),
            "set_satoshis" => t.set_satoshis(un(st_, "v")?),
            "set_locking_script" => t.set_locking_script(&Script::from_bytes(&hx(st_, "script")?).map_err(lib)?),
            "clone" => t = t.clone(),
            o => return Err(drv(format!("txin_hist op {}", o))),
        }
        out.push(snap(&t)?);
    }
    Ok(Value::Array(out))
}

fn txout_decode(req: &Value) -> R {
    let bytes = hx(req, "hex")?;
    let t = TxOut::from_hex(&hex::encode(&bytes)).map_err(lib)?;
    let mut o = dump_out(0, &t);
    o["bytes"] = h(&t.to_bytes().map_err(lib)?);
    o["hex_eq"] = json!(t.to_hex().map_err(lib)? == hex::encode(t.to_bytes().map_err(lib)?));
    Ok(o)
}

fn varint(req: &Value) -> R {
    use std::io::Cursor;
    let n = un(req, "n")?;
    let gb = VarInt::get_varint_bytes(n);
    let mut w: Vec<u8> = vec![];
    w.write_varint(n).map_err(lib)?;
    let mut wc: Cursor<Vec<u8>> = Cursor::new(vec![]);
    wc.write_varint(n).map_err(lib)?;
    let mut r1 = w.clone();
    let rv = r1.read_varint().map_err(lib)?;
    let mut c = Cursor::new(w.clone());
    let rc = c.read_varint().map_err(lib)?;
    let mut g = gb.clone();
    let rg = g.read_varint().map_err(lib)?;
    Ok(json!({"get_bytes": h(&gb), "size": VarInt::get_varint_size(n), "write": h(&w), "write_cursor": h(&wc.into_inner()),
        "read_vec": rv, "read_cursor": rc, "read_get_bytes": rg,
        "pushdata_opcode": VarInt::get_pushdata_opcode(n).map(|o| o as u8)}))
}

pub fn flag_of(req: &Value, k: &str) -> Result<SigHash, E> {
    let f = un(req, k)? as u8;
    SigHash::try_from(f).map_err(|e| drv(format!("flag {}: {}", f, e)))
}

fn sighash(req: &Value) -> R {
    let bytes = hx(req, "tx")?;
    let mut tx = Transaction::from_bytes(&bytes).map_err(|e| drv(format!("tx parse: {}", e)))?;
    apply_ext(&mut tx, req)?;
    let flag = flag_of(req, "flag")?;
    let idx = un(req, "idx")? as usize;
    let script = Script::from_bytes(&hx(req, "script")?).map_err(|e| drv(format!("subscript parse: {}", e)))?;
    let value = un(req, "value")?;
    let pre = tx.sighash_preimage(flag, idx, &script, value).map_err(lib)?;
    let mut o = json!({ "preimage": h(&pre) });
    // public hashPrevouts accessor: on the warmed object and on an untouched parse of the same bytes
    o["hash_inputs_warm"] = h(&tx.hash_inputs(flag));
    {
        let mut t2 = Transaction::from_bytes(&bytes).map_err(|e| drv(format!("tx parse: {}", e)))?;
        o["hash_inputs_cold"] = h(&t2.hash_inputs(flag));
    }
    if bo(req, "twice") {
        // same call again on the same object (cache now warm)
        let pre2 = tx.sighash_preimage(flag, idx, &script, value).map_err(lib)?;
        o["preimage2"] = h(&pre2);
    }
    Ok(o)
}

pub fn mk_key(req: &Value, k: &str, ck: &str) -> Result<PrivateKey, E> {
    let kb = hx(req, k)?;
    let key = PrivateKey::from_bytes(&kb).map_err(|e| drv(format!("key: {}", e)))?;
    Ok(key.compress_public_key(req.get(ck).and_then(|x| x.as_bool()).unwrap_or(true)))
}

fn tx_sign(req: &Value) -> R {
    let bytes = hx(req, "tx")?;
    let mut tx = Transaction::from_bytes(&bytes).map_err(|e| drv(format!("tx parse: {}", e)))?;
    apply_ext(&mut tx, req)?;
    let flag = flag_of(req, "flag")?;
    let idx = un(req, "idx")? as usize;
    let script = Script::from_bytes(&hx(req, "script")?).map_err(|e| drv(format!("subscript parse: {}", e)))?;
    let value = un(req, "value")?;
    let key = mk_key(req, "key", "compressed")?;
    let sig = match hx_opt(req, "k")? {
        Some(kb) => {
            let k = PrivateKey::from_bytes(&kb).map_err(|e| drv(format!("k: {}", e)))?;
            tx.sign_with_k(&key, &k, flag, idx, &script, value).map_err(lib)?
        }
        None => tx.sign(&key, flag, idx, &script, value).map_err(lib)?,
    };
    let pubk = key.to_public_key().map_err(lib)?;
    let sb = sig.to_bytes().map_err(lib)?;
    Ok(json!({
        "sig": h(&sb),
        "sig_hex_eq": sig.to_hex().map_err(lib)? == hex::encode(&sb),
        "verify": tx.verify(&pubk, &sig),
        "verify_plain": tx._verify(&pubk, &sig, false),
        "verify_reversed": tx._verify(&pubk, &sig, true),
        "pub": h(&pubk.to_bytes().map_err(lib)?),
    }))
}

fn slots(tx: &Transaction) -> Value {
    let s = tx.verif_hash_cache();
    json!([s[0].as_ref().map(|b| hex::encode(b)), s[1].as_ref().map(|b| hex::encode(b)), s[2].as_ref().map(|b| hex::encode(b))])
}

fn sighash_call(tx: &mut Transaction, st_: &Value) -> Result<Value, E> {
    let flag = flag_of(st_, "flag")?;
    let idx = un(st_, "idx")? as usize;
    let script = Script::from_bytes(&hx(st_, "script")?).map_err(|e| drv(format!("subscript: {}", e)))?;
    let value = un(st_, "value")?;
    match st(st_, "op")? {
        "sighash" => Ok(sub(|| tx.sighash_preimage(flag, idx, &script, value), |p| h(&p))),
        "sign" => {
            let key = mk_key(st_, "key", "compressed")?;
            Ok(sub(|| tx.sign(&key, flag, idx, &script, value).and_then(|s| s.to_bytes()), |p| h(&p)))
        }
        "sign_k" => {
            let key = mk_key(st_, "key", "compressed")?;
            let k = PrivateKey::from_bytes(&hx(st_, "k")?).map_err(|e| drv(format!("k: {}", e)))?;
            Ok(sub(|| tx.sign_with_k(&key, &k, flag, idx, &script, value).and_then(|s| s.to_bytes()), |p| h(&p)))
        }
        o => Err(drv(format!("bad sighash op {}", o))),
    }
}

/// A whole mutation/sighash history on one live Transaction, with per-step observations.
fn history(req: &Value) -> R {
    let mut live = match hx_opt(req, "init")? {
        Some(b) => Transaction::from_bytes(&b).map_err(|e| drv(format!("init parse: {}", e)))?,
        // start object decoded from a JSON document (or the same document re-encoded as CBOR)
        None if req.get("init_json").is_some() => {
            let text = st(req, "init_json")?;
            if st_opt(req, "init_via") == Some("cbor") {
                let v: serde_json::Value = serde_json::from_str(text).map_err(|e| drv(format!("init_json: {}", e)))?;
                let mut buf = vec![];
                ciborium::ser::into_writer(&v, &mut buf).map_err(|e| drv(format!("init cbor: {}", e)))?;
                Transaction::from_compact_bytes(&buf).map_err(|e| drv(format!("init parse: {}", e)))?
            } else {
                Transaction::from_json_string(text).map_err(|e| drv(format!("init parse: {}", e)))?
            }
        }
        None => Transaction::new(un_opt(req, "version").unwrap_or(1) as u32, un_opt(req, "locktime").unwrap_or(0) as u32),
    };
    let probes: Vec<Value> = req.get("probes").and_then(|x| x.as_array()).cloned().unwrap_or_default();
    let mut out = vec![];
    for st_ in arr(req, "steps")? {
        let op = st(st_, "op")?;
        let mut rec = json!({});
        match op {
            "add_input" => live.add_input(&mk_txin(get(st_, "in")?)?),
            "prepend_input" => live.prepend_input(&mk_txin(get(st_, "in")?)?),
            "insert_input" => live.insert_input(un(st_, "i")? as usize, &mk_txin(get(st_, "in")?)?),
            "set_input" => live.set_input(un(st_, "i")? as usize, &mk_txin(get(st_, "in")?)?),
            "add_inputs" => {
                let v: Result<Vec<TxIn>, E> = arr(st_, "ins")?.iter().map(mk_txin).collect();
                live.add_inputs(v?)
            }
            "add_output" => live.add_output(&mk_txout(get(st_, "out")?)?),
            "prepend_output" => live.prepend_output(&mk_txout(get(st_, "out")?)?),
            "insert_output" => live.insert_output(un(st_, "i")? as usize, &mk_txout(get(st_, "out")?)?),
            "set_output" => live.set_output(un(st_, "i")? as usize, &mk_txout(get(st_, "out")?)?),
            "add_outputs" => {
                let v: Result<Vec<TxOut>, E> = arr(st_, "outs")?.iter().map(mk_txout).collect();
                live.add_outputs(v?)
            }
            "set_version" => {
                let c = live.set_version(un(st_, "v")? as u32);
                if bo(st_, "adopt") {
                    live = c;
                }
            }
            "set_nlocktime" => {
                let c = live.set_nlocktime(un(st_, "v")? as u32);
                if bo(st_, "adopt") {
                    live = c;
                }
            }
            "clone" => {
                live = live.clone();
            }
            "clone_from" => {
                // Clone::clone_from: overwrite the live object in place with another transaction
                let other = Transaction::from_bytes(&hx(st_, "tx")?).map_err(|e| drv(format!("clone_from parse: {}", e)))?;
                live.clone_from(&other);
            }
            "clone_from_self_copy" => {
                let other = live.clone();
                live.clone_from(&other);
            }
            "get_id" => {
                rec["id"] = json!(live.get_id_hex().map_err(lib)?);
            }
            "get_outpoints" => {
                rec["n"] = json!(live.get_outpoints().len());
            }
            "edit_input" => {
                // take the input object OUT of the live transaction (after its accessors have been used), change one field through its own
                // setter, and put it back with set_input
                let i = un(st_, "i")? as usize;
                let mut inp = live.get_input(i).ok_or_else(|| drv("edit_input index"))?;
                let _ = (inp.get_outpoint_bytes(Some(true)), inp.get_outpoint_hex(None), inp.get_prev_tx_id(None), inp.get_sequence_as_bytes(), inp.get_unlocking_script_hex(), inp.to_bytes().is_ok(), inp.is_coinbase());
                match st(st_, "field")? {
                    "vout" => inp.set_vout(un(st_, "v")? as u32),
                    "seq" => inp.set_sequence(un(st_, "v")? as u32),
                    "txid" => inp.set_prev_tx_id(&hx(st_, "txid")?),
                    "script" => inp.set_unlocking_script(&Script::from_bytes(&hx(st_, "script")?).map_err(lib)?),
                    f => return Err(drv(format!("edit_input field {}", f))),
                }
                live.set_input(i, &inp);
            }
            "accessors" => {
                // every read accessor of the transaction (some take &mut self): none of them may change what a later sighash returns
                let n = live.get_outpoints().len();
                let _ = (live.get_id_hex(), live.get_id_bytes(), live.get_size(), live.to_bytes(), live.to_hex(), live.to_json_string(), live.to_json().is_ok(), live.to_compact_bytes(), live.to_compact_hex());
                // (the totals overflow for value sums >= 2^64, which C01 excludes from its claims: a panic here is not a verdict)
                let _ = guarded(|| (live.satoshis_in(), live.satoshis_out()));
                let _ = (live.is_coinbase(), live.is_coinbase_impl(), live.get_version(), live.get_n_locktime(), live.get_n_locktime_as_bytes(), live.get_ninputs(), live.get_noutputs());
                for i in 0..live.get_ninputs() {
                    let _ = live.get_input(i).map(|x| (x.get_outpoint_bytes(Some(true)), x.get_sequence_as_bytes(), x.get_finalised_script().is_ok()));
                }
                for i in 0..live.get_noutputs() {
                    let _ = live.get_output(i).map(|x| (x.get_satoshis_as_bytes(), x.get_script_pub_key_size()));
                }
                rec["n"] = json!(n);
            }
            "hash_inputs" => {
                // public accessor that fills the hashPrevouts cache slot without going through a sighash call
                rec["hash_inputs"] = h(&live.hash_inputs(flag_of(st_, "flag")?));
            }
            "sighash" | "sign" | "sign_k" => {
                rec["live"] = sighash_call(&mut live, st_)?;
                let lb = live.to_bytes().map_err(lib)?;
                let mut fresh = Transaction::from_bytes(&lb).map_err(|e| drv(format!("fresh parse: {}", e)))?;
                rec["fresh"] = sighash_call(&mut fresh, st_)?;
            }
            o => return Err(drv(format!("unknown history op {}", o))),
        }
        let lb = live.to_bytes().map_err(lib)?;
        rec["bytes"] = h(&lb);
        rec["id_now"] = json!(live.get_id_hex().map_err(lib)?);
        rec["size_now"] = json!(live.get_size().map_err(lib)?);
        rec["slots"] = slots(&live);
        // behavioural probes after every step: the same sighash on a clone of the live object and on a fresh parse
        if !probes.is_empty() {
            let mut pl = vec![];
            for p in &probes {
                let n_in = live.get_ninputs();
                if n_in == 0 {
                    pl.push(Value::Null);
                    continue;
                }
                let mut p2 = p.clone();
                // the probe's index is reduced modulo the current input count so that it is always valid
                let idx = (un(p, "idx")? as usize) % n_in;
                p2["idx"] = json!(idx);
                let mut c = live.clone();
                let a = sighash_call(&mut c, &p2)?;
                let mut fresh = Transaction::from_bytes(&lb).map_err(|e| drv(format!("fresh parse: {}", e)))?;
                let b = sighash_call(&mut fresh, &p2)?;
                pl.push(json!({"idx": idx, "eq": a == b, "clone": if a == b { Value::Null } else { a }, "fresh": if false { Value::Null } else { b.clone() }, "truth_slots": slots(&fresh)}));
            }
            rec["probes"] = Value::Array(pl);
        }
        out.push(rec);
    }
    Ok(json!({ "steps": out }))
}

pub fn apply_ext(tx: &mut Transaction, req: &Value) -> Result<(), E> {
    if let Some(ext) = req.get("ext").and_then(|x| x.as_array()) {
        for (i, e) in ext.iter().enumerate() {
            if e.is_null() {
                continue;
            }
            let mut inp = tx.get_input(i).ok_or_else(|| drv("ext index"))?;
            if let Some(s) = un_opt(e, "satoshis") {
                inp.set_satoshis(s);
            }
            if let Some(l) = hx_opt(e, "locking")? {
                inp.set_locking_script(&Script::from_bytes(&l).map_err(|e| drv(format!("ext locking: {}", e)))?);
            }
            tx.set_input(i, &inp);
        }
    }
    Ok(())
}

/// JSON / CBOR round trips of a whole (extended) transaction.
fn tx_codec(req: &Value) -> R {
    let mut tx = Transaction::from_bytes(&hx(req, "tx")?).map_err(|e| drv(format!("tx parse: {}", e)))?;
    apply_ext(&mut tx, req)?;
    // scripts handed over as element lists (Script::from_script_bits), e.g. conditionals kept as FLAT opcodes
    if let Some(m) = req.get("in_bits").and_then(|x| x.as_object()) {
        for (k_, v) in m {
            let i: usize = k_.parse().map_err(|_| drv("in_bits index"))?;
            let mut inp = tx.get_input(i).ok_or_else(|| drv("in_bits index out of range"))?;
            inp.set_unlocking_script(&Script::from_script_bits(crate::ops_script::bits_from_json(v)?));
            tx.set_input(i, &inp);
        }
    }
    if let Some(m) = req.get("out_bits").and_then(|x| x.as_object()) {
        for (k_, v) in m {
            let i: usize = k_.parse().map_err(|_| drv("out_bits index"))?;
            let out = tx.get_output(i).ok_or_else(|| drv("out_bits index out of range"))?;
            tx.set_output(i, &TxOut::new(out.get_satoshis(), &Script::from_script_bits(crate::ops_script::bits_from_json(v)?)));
        }
    }
    let orig = tx.clone();
    let bits_of = |t: &Transaction| -> Vec<Vec<ScriptBit>> {
        let mut v = vec![];
        for i in 0..t.get_ninputs() {
            v.push(t.get_input(i).map(|x| x.get_unlocking_script().to_script_bits()).unwrap_or_default());
        }
        for i in 0..t.get_noutputs() {
            v.push(t.get_output(i).map(|x| x.get_script_pub_key().to_script_bits()).unwrap_or_default());
        }
        v
    };
    let orig_bits = bits_of(&orig);
    let mut dreq = req.clone();
    dreq["totals"] = json!(false);
    let before = dump_tx(&mut tx, &dreq)?;
    let mut o = json!({ "before": before });
    let after = |r: Result<Transaction, BSVErrors>| -> Value {
        match r {
            Ok(mut t) => match (t == orig, bits_of(&t) == orig_bits, dump_tx(&mut t, &dreq)) {
                (eq, beq, Ok(mut d)) => {
                    // `==` of the library's own PartialEq, and equality of every script's element list
                    d["partial_eq"] = json!(eq);
                    d["script_bits_eq"] = json!(beq);
                    json!({ "ok": d })
                }
                (_, _, Err(E::Lib(e))) => json!({ "err": format!("dump: {}", e) }),
                (_, _, Err(E::Drv(e))) => json!({ "drv_err": e }),
            },
            Err(e) => json!({ "err": e.to_string() }),
        }
    };
    let via = st_opt(req, "via").unwrap_or("all");
    if via == "all" || via == "json_string" {
        o["json_string"] = match guarded(|| tx.to_json_string().map(|s| (s.clone(), Transaction::from_json_string(&s)))) {
            Ok(Ok((s, r))) => {
                let mut a = after(r);
                a["doc_len"] = json!(s.len());
                if bo(req, "keep_doc") {
                    a["doc"] = json!(s);
                }
                a
            }
            Ok(Err(e)) => json!({ "ser_err": e.to_string() }),
            Err(p) => json!({ "panic": p }),
        };
    }
    if via == "all" || via == "json" {
        o["json"] = match guarded(|| tx.to_json().map(|v| Transaction::from_json_string(&v.to_string()))) {
            Ok(Ok(r)) => after(r),
            Ok(Err(e)) => json!({ "ser_err": e.to_string() }),
            Err(p) => json!({ "panic": p }),
        };
    }
    if via == "all" || via == "cbor" {
        o["cbor"] = match guarded(|| tx.to_compact_bytes().map(|b| (b.len(), Transaction::from_compact_bytes(&b)))) {
            Ok(Ok((n, r))) => {
                let mut a = after(r);
                a["doc_len"] = json!(n);
                a
            }
            Ok(Err(e)) => json!({ "ser_err": e.to_string() }),
            Err(p) => json!({ "panic": p }),
        };
    }
    if via == "all" || via == "cbor_hex" {
        o["cbor_hex"] = match guarded(|| tx.to_compact_hex().map(|b| Transaction::from_compact_hex(&b))) {
            Ok(Ok(r)) => after(r),
            Ok(Err(e)) => json!({ "ser_err": e.to_string() }),
            Err(p) => json!({ "panic": p }),
        };
    }
    Ok(o)
}

/// CBOR / JSON round trips of a single input.
fn txin_codec(req: &Value) -> R {
    let t = mk_txin(get(req, "in")?)?;
    let before = {
        let mut o = dump_in(0, &t);
        o["bytes"] = h(&t.to_bytes().map_err(lib)?);
        o
    };
    let after = |r: Result<TxIn, String>| -> Value {
        match r {
            Ok(t) => {
                let mut o = dump_in(0, &t);
                match t.to_bytes() {
                    Ok(b) => o["bytes"] = h(&b),
                    Err(e) => o["bytes_err"] = json!(e.to_string()),
                }
                json!({ "ok": o })
            }
            Err(e) => json!({ "err": e }),
        }
    };
    let mut o = json!({ "before": before });
    o["cbor"] = match guarded(|| t.to_compact_bytes().map(|b| TxIn::from_compact_bytes(&b).map_err(|e| e.to_string()))) {
        Ok(Ok(r)) => after(r),
        Ok(Err(e)) => json!({ "ser_err": e.to_string() }),
        Err(p) => json!({ "panic": p }),
    };
    o["cbor_hex"] = match guarded(|| t.to_compact_hex().map(|b| TxIn::from_compact_hex(&b).map_err(|e| e.to_string()))) {
        Ok(Ok(r)) => after(r),
        Ok(Err(e)) => json!({ "ser_err": e.to_string() }),
        Err(p) => json!({ "panic": p }),
    };
    o["json_string"] = match guarded(|| t.to_json_string().map(|s| serde_json::from_str::<TxIn>(&s).map_err(|e| e.to_string()))) {
        Ok(Ok(r)) => after(r),
        Ok(Err(e)) => json!({ "ser_err": e.to_string() }),
        Err(p) => json!({ "panic": p }),
    };
    o["json"] = match guarded(|| t.to_json().map(|v| serde_json::from_value::<TxIn>(v).map_err(|e| e.to_string()))) {
        Ok(Ok(r)) => after(r),
        Ok(Err(e)) => json!({ "ser_err": e.to_string() }),
        Err(p) => json!({ "panic": p }),
    };
    Ok(o)
}

fn criteria(req: &Value) -> R {
    let mut tx = Transaction::from_bytes(&hx(req, "tx")?).map_err(|e| drv(format!("tx parse: {}", e)))?;
    apply_ext(&mut tx, req)?;
    // inputs re-created through the construction API (TxIn::new with an ordinary script, whatever the outpoint) instead of the parser
    if let Some(m) = req.get("api_inputs").and_then(|x| x.as_object()) {
        for (k_, v) in m {
            let i: usize = k_.parse().map_err(|_| drv("api_inputs index"))?;
            let old = tx.get_input(i).ok_or_else(|| drv("api_inputs index out of range"))?;
            let mut n = mk_txin(v)?;
            if let Some(s_) = old.get_satoshis() {
                n.set_satoshis(s_);
            }
            if let Some(l) = old.get_locking_script() {
                n.set_locking_script(&l);
            }
            tx.set_input(i, &n);
        }
    }
    let mut c = MatchCriteria::new();
    // the setters are called in the requested order (in place, return values ignored)
    let order: Vec<String> = match req.get("order").and_then(|x| x.as_array()) {
        Some(a) => a.iter().filter_map(|x| x.as_str().map(|s| s.to_string())).collect(),
        None => vec!["tmpl".into(), "exact".into(), "min".into(), "max".into()],
    };
    for what in &order {
        match what.as_str() {
            "tmpl" => {
                if let Some(t) = st_opt(req, "tmpl") {
                    let tm = ScriptTemplate::from_asm_string(t).map_err(|e| drv(format!("template: {}", e)))?;
                    c.set_script_template(&tm);
                }
            }
            "exact" => {
                if let Some(v) = un_opt(req, "exact") {
                    c.set_value(v);
                }
            }
            "min" => {
                if let Some(v) = un_opt(req, "min") {
                    c.set_min(v);
                }
            }
            "max" => {
                if let Some(v) = un_opt(req, "max") {
                    c.set_max(v);
                }
            }
            o => return Err(drv(format!("criteria order item {}", o))),
        }
    }
    Ok(json!({
        "outputs": sub0(|| tx.match_outputs(&c), |v| json!(v)),
        "output": sub0(|| tx.match_output(&c), |v| json!(v)),
        "inputs": sub0(|| tx.match_inputs(&c), |v| json!(v)),
        "input": sub0(|| tx.match_input(&c), |v| json!(v)),
    }))
}

/// Library-produced JSON / CBOR documents of a transaction and of its inputs (corpus material for the decoder workloads).
fn docs(req: &Value) -> R {
    let mut tx = Transaction::from_bytes(&hx(req, "tx")?).map_err(|e| drv(format!("tx parse: {}", e)))?;
    apply_ext(&mut tx, req)?;
    let mut ins = vec![];
    for i in 0..tx.get_ninputs() {
        let t = tx.get_input(i).unwrap();
        ins.push(json!({"json": t.to_json_string().map_err(lib)?, "cbor": h(&t.to_compact_bytes().map_err(lib)?)}));
    }
    let mut outs = vec![];
    for i in 0..tx.get_noutputs() {
        outs.push(json!({"json": tx.get_output(i).unwrap().to_json_string().map_err(lib)?}));
    }
    Ok(json!({"json": tx.to_json_string().map_err(lib)?, "cbor": h(&tx.to_compact_bytes().map_err(lib)?), "ins": ins, "outs": outs}))
}
