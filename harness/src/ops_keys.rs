//! Private/public keys, WIF, addresses, BIP32.
use crate::util::*;
use bsv::*;
use serde_json::{json, Value};

pub fn dispatch(op: &str, req: &Value) -> Option<R> {
    Some(match op {
        "privkey" => privkey(req),
        "pubkey" => pubkey(req),
        "addr" => addr(req),
        "bip32" => bip32(req),
        _ => return None,
    })
}

fn privkey(req: &Value) -> R {
    let key = if bo(req, "random") {
        PrivateKey::from_random()
    } else if let Some(w) = st_opt(req, "wif") {
        PrivateKey::from_wif(w).map_err(lib)?
    } else if let Some(hs) = st_opt(req, "hex_str") {
        PrivateKey::from_hex(hs).map_err(lib)?
    } else {
        PrivateKey::from_bytes(&hx(req, "bytes")?).map_err(lib)?
    };
    let key = match req.get("compressed").and_then(|x| x.as_bool()) {
        Some(c) => key.compress_public_key(c),
        None => key,
    };
    let pk = key.to_public_key().map_err(lib)?;
    // same object family: derive the public key, then flip the compression flag and derive again (and back)
    let flipped = key.compress_public_key(!pk.is_compressed());
    let pk_flipped = flipped.to_public_key().map_err(lib)?;
    let back = flipped.compress_public_key(pk.is_compressed());
    let pk_back = back.to_public_key().map_err(lib)?;
    Ok(json!({
        "flipped": {"pub": h(&pk_flipped.to_bytes().map_err(lib)?), "wif": flipped.to_wif().map_err(lib)?, "point": h(&flipped.get_point())},
        "back": {"pub": h(&pk_back.to_bytes().map_err(lib)?), "wif": back.to_wif().map_err(lib)?},
        "wif": key.to_wif().map_err(lib)?,
        "bytes": h(&key.to_bytes()),
        "hex_eq": key.to_hex() == hex::encode(key.to_bytes()),
        "pub": h(&pk.to_bytes().map_err(lib)?),
        "pub_compressed": pk.is_compressed(),
        "point": h(&key.get_point()),
        "from_private_key": h(&PublicKey::from_private_key(&key).to_bytes().map_err(lib)?),
    }))
}

fn pubkey(req: &Value) -> R {
    let b = hx(req, "hex")?;
    let pk = match st_opt(req, "via").unwrap_or("bytes") {
        "bytes" => PublicKey::from_bytes(&b).map_err(lib)?,
        "hex" => PublicKey::from_hex(&hex::encode(&b)).map_err(lib)?,
        v => return Err(drv(format!("via {}", v))),
    };
    let pb = |p: PublicKey| -> Value { json!({"bytes": p.to_bytes().map(|b| hex::encode(b)).unwrap_or_default(), "compressed": p.is_compressed()}) };
    Ok(json!({
        "bytes": sub(|| pk.to_bytes(), |b| h(&b)),
        "hex": sub(|| pk.to_hex(), |s| json!(s)),
        "compressed": pk.is_compressed(),
        "to_compressed": sub(|| pk.to_compressed(), pb),
        "to_decompressed": sub(|| pk.to_decompressed(), pb),
        "address": sub(|| pk.to_p2pkh_address().and_then(|a| a.to_string()), |s| json!(s)),
        "cc": sub(|| pk.to_decompressed().and_then(|d| d.to_compressed()), pb),
        // serde entry points (JSON text and CBOR bytes) and back
        "serde_json": sub(|| serde_json::to_string(&pk).and_then(|t| serde_json::from_str::<PublicKey>(&t).map(|p| (t, p))), |(t, p)| json!({"doc": t, "back": pb(p)})),
        "serde_cbor": sub(
            || -> Result<PublicKey, String> {
                let mut buf = vec![];
                ciborium::ser::into_writer(&pk, &mut buf).map_err(|e| e.to_string())?;
                ciborium::de::from_reader::<PublicKey, _>(&buf[..]).map_err(|e| e.to_string())
            },
            pb,
        ),
        "dd": sub(|| pk.to_compressed().and_then(|d| d.to_decompressed()), pb),
    }))
}

fn preset(name: &str) -> Option<ChainParams> {
    Some(match name {
        "mainnet" => ChainParams::mainnet(),
        "testnet" => ChainParams::testnet(),
        "regtest" => ChainParams::regtest(),
        "stn" => ChainParams::stn(),
        "default" => ChainParams::default(),
        _ => return None,
    })
}

fn chain(p: u64) -> ChainParams {
    ChainParams::new(p as u8, 5, 0x80, 0x0488b21e, 0x0488ade4, 0xe3e1f3e8)
}

fn addr(req: &Value) -> R {
    let a = if let Some(s) = st_opt(req, "string") {
        P2PKHAddress::from_string(s).map_err(lib)?
    } else if let Some(hs) = hx_opt(req, "hash")? {
        P2PKHAddress::from_pubkey_hash(&hs).map_err(lib)?
    } else {
        let pk = PublicKey::from_bytes(&hx(req, "from_pub")?).map_err(|e| drv(format!("from_pub: {}", e)))?;
        if bo(req, "via_pubkey_method") {
            pk.to_p2pkh_address().map_err(lib)?
        } else {
            P2PKHAddress::from_pubkey(&pk).map_err(lib)?
        }
    };
    let a = match un_opt(req, "prefix") {
        Some(p) => a.set_chain_params(&chain(p)).map_err(lib)?,
        None => a,
    };
    let mut preset_prefix = Value::Null;
    let a = match st_opt(req, "preset") {
        Some(n) => {
            let cp = preset(n).ok_or_else(|| drv(format!("preset {}", n)))?;
            preset_prefix = json!(cp.p2pkh);
            if bo(req, "via_impl") {
                a.set_chain_params_impl(&cp).map_err(lib)?
            } else {
                a.set_chain_params(&cp).map_err(lib)?
            }
        }
        None => a,
    };
    // a further sequence of network changes on the same address: [{"prefix": p} | {"preset": name}]
    let mut a = a;
    if let Some(seq) = req.get("then").and_then(|x| x.as_array()) {
        for st_ in seq {
            let cp = match st_opt(st_, "preset") {
                Some(n) => preset(n).ok_or_else(|| drv(format!("preset {}", n)))?,
                None => chain(un(st_, "prefix")?),
            };
            preset_prefix = json!(cp.p2pkh);
            a = if bo(req, "via_impl") { a.set_chain_params_impl(&cp) } else { a.set_chain_params(&cp) }.map_err(lib)?;
        }
    }
    let mut o = json!({
        "preset_prefix": preset_prefix,
        "string": sub(|| a.to_string(), |s| json!(s)),
        "hash": h(&a.to_pubkey_hash()),
        "hash_hex_eq": a.to_pubkey_hash_hex() == hex::encode(a.to_pubkey_hash()),
        "locking": sub(|| a.get_locking_script(), |s| h(&s.to_bytes())),
    });
    o["serde_json"] = sub(|| serde_json::to_string(&a).and_then(|t| serde_json::from_str::<P2PKHAddress>(&t).map(|b| (t, b))), |(t, b)| json!({"doc": t, "string": b.to_string().unwrap_or_default(), "hash": hex::encode(b.to_pubkey_hash())}));
    o["serde_cbor"] = sub(
        || -> Result<P2PKHAddress, String> {
            let mut buf = vec![];
            ciborium::ser::into_writer(&a, &mut buf).map_err(|e| e.to_string())?;
            ciborium::de::from_reader::<P2PKHAddress, _>(&buf[..]).map_err(|e| e.to_string())
        },
        |b| json!({"string": b.to_string().unwrap_or_default(), "hash": hex::encode(b.to_pubkey_hash())}),
    );
    // value-level equality (the library's own ==) with the address parsed back from its string / restored from its serde form
    o["reparse_eq"] = sub(|| a.to_string().and_then(|s| P2PKHAddress::from_string(&s)), |b| json!(b == a));
    o["serde_eq"] = sub(|| serde_json::to_string(&a).and_then(|t| serde_json::from_str::<P2PKHAddress>(&t)), |b| json!(b == a));
    // string round trip through the parser
    o["reparse"] = sub(|| a.to_string().and_then(|s| P2PKHAddress::from_string(&s)).and_then(|b| b.to_string().map(|s| (s, b.to_pubkey_hash()))), |(s, hsh)| json!({"string": s, "hash": hex::encode(hsh)}));
    if let Some(pkb) = hx_opt(req, "unlock_pub")? {
        let pk = PublicKey::from_bytes(&pkb).map_err(|e| drv(format!("unlock_pub: {}", e)))?;
        // signature given as DER||flag bytes
        let sb = hx(req, "unlock_sig")?;
        let ss = SighashSignature::from_bytes(&sb, &[]).map_err(|e| drv(format!("unlock_sig: {}", e)))?;
        o["unlocking"] = sub(|| a.get_unlocking_script(&pk, &ss), |s| h(&s.to_bytes()));
        // ... and with a signature object as Transaction::sign hands it out (recovery info and the signed preimage travel with it),
        // made by a key OBJECT whose compression flag is chosen independently of the form of the public key bytes
        if let Some(kb) = hx_opt(req, "unlock_key")? {
            let key = PrivateKey::from_bytes(&kb).map_err(|e| drv(format!("unlock_key: {}", e)))?.compress_public_key(bo(req, "unlock_key_compressed"));
            let mut raw = vec![1u8, 0, 0, 0, 1];
            raw.extend_from_slice(&[0x22; 32]);
            raw.extend_from_slice(&[3, 0, 0, 0, 0, 0xff, 0xff, 0xff, 0xff, 1, 5, 0, 0, 0, 0, 0, 0, 0, 1, 0x51, 0, 0, 0, 0]);
            let mut tx = bsv::Transaction::from_bytes(&raw).map_err(|e| drv(format!("unlock tx: {}", e)))?;
            let lock = a.get_locking_script().map_err(lib)?;
            let flag = if bo(req, "unlock_legacy") { bsv::SigHash::ALL } else { bsv::SigHash::InputsOutputs };
            o["unlocking_signed"] = sub(
                || tx.sign(&key, flag, 0, &lock, 1000).and_then(|ss2| Ok((ss2.to_bytes()?, a.get_unlocking_script(&pk, &ss2)))),
                |(sigb, res)| match res {
                    Ok(s) => json!({"sig": hex::encode(sigb), "script": hex::encode(s.to_bytes())}),
                    Err(e) => json!({"sig": hex::encode(sigb), "script_err": e.to_string()}),
                },
            );
        }
    }
    Ok(o)
}

fn xprv_json(x: &ExtendedPrivateKey) -> Value {
    json!({
        "string": sub(|| x.to_string(), |s| json!(s)),
        "string_impl_eq": x.to_string().ok() == x.to_string_impl().ok(),
        "key": h(&x.get_private_key().to_bytes()),
        "pub": sub(|| x.get_public_key().to_bytes(), |b| h(&b)),
        "chain": h(&x.get_chain_code()),
        "depth": x.get_depth(),
        "index": x.get_index(),
        "fp": h(&x.get_parent_fingerprint()),
    })
}

fn xpub_json(x: &ExtendedPublicKey) -> Value {
    json!({
        "string": sub(|| x.to_string(), |s| json!(s)),
        "string_impl_eq": x.to_string().ok() == x.to_string_impl().ok(),
        "pub": sub(|| x.get_public_key().to_bytes(), |b| h(&b)),
        "chain": h(&x.get_chain_code()),
        "depth": x.get_depth(),
        "index": x.get_index(),
        "fp": h(&x.get_parent_fingerprint()),
    })
}

/// {start: {seed|xprv|xpub|xpub_seed}, steps: [{derive: i}|{path: s}|{neuter: true}|{reparse: true}]} → state after start and after every step
fn bip32(req: &Value) -> R {
    enum K {
        Prv(ExtendedPrivateKey),
        Pub(ExtendedPublicKey),
    }
    let start = get(req, "start")?;
    // via_impl: use the public `*_impl` twins of every entry point (they are part of the public API too)
    let vi = bo(req, "via_impl");
    let mut cur = if let Some(s) = hx_opt(start, "seed")? {
        K::Prv(if vi { ExtendedPrivateKey::from_seed_impl(&s) } else { ExtendedPrivateKey::from_seed(&s) }.map_err(lib)?)
    } else if let Some(s) = hx_opt(start, "xpub_seed")? {
        K::Pub(if vi { ExtendedPublicKey::from_seed_impl(&s) } else { ExtendedPublicKey::from_seed(&s) }.map_err(lib)?)
    } else if let Some(s) = st_opt(start, "xprv") {
        K::Prv(if vi { ExtendedPrivateKey::from_string_impl(s) } else { ExtendedPrivateKey::from_string(s) }.map_err(lib)?)
    } else if let Some(s) = st_opt(start, "xpub") {
        K::Pub(if vi { ExtendedPublicKey::from_string_impl(s) } else { ExtendedPublicKey::from_string(s) }.map_err(lib)?)
    } else if let Some(which) = st_opt(start, "random") {
        match which {
            "prv" => K::Prv(ExtendedPrivateKey::from_random().map_err(lib)?),
            _ => K::Pub(ExtendedPublicKey::from_random().map_err(lib)?),
        }
    } else if let Some(p) = start.get("new_prv") {
        let k = PrivateKey::from_bytes(&hx(p, "key")?).map_err(|e| drv(format!("new_prv key: {}", e)))?;
        let fp = hx_opt(p, "fp")?;
        K::Prv(ExtendedPrivateKey::new(&k, &hx(p, "chain")?, &(un(p, "depth")? as u8), &(un(p, "index")? as u32), fp.as_deref()))
    } else if let Some(p) = start.get("new_pub") {
        let k = PublicKey::from_bytes(&hx(p, "pub")?).map_err(|e| drv(format!("new_pub pub: {}", e)))?;
        let fp = hx_opt(p, "fp")?;
        K::Pub(ExtendedPublicKey::new(&k, &hx(p, "chain")?, &(un(p, "depth")? as u8), &(un(p, "index")? as u32), fp.as_deref()))
    } else {
        return Err(drv("bip32 start"));
    };
    let snap = |k: &K| match k {
        K::Prv(x) => json!({ "prv": xprv_json(x) }),
        K::Pub(x) => json!({ "pub": xpub_json(x) }),
    };
    let mut out = vec![snap(&cur)];
    if let Some(steps) = req.get("steps").and_then(|x| x.as_array()) {
        for s in steps {
            let next: Result<Result<K, String>, Value> = if let Some(i) = un_opt(s, "derive") {
                guarded(|| match &cur {
                    K::Prv(x) => if vi { x.derive_impl(i as u32) } else { x.derive(i as u32) }.map(K::Prv).map_err(|e| e.to_string()),
                    K::Pub(x) => if vi { x.derive_impl(i as u32) } else { x.derive(i as u32) }.map(K::Pub).map_err(|e| e.to_string()),
                })
            } else if let Some(p) = st_opt(s, "path") {
                guarded(|| match &cur {
                    K::Prv(x) => if vi { x.derive_from_path_impl(p) } else { x.derive_from_path(p) }.map(K::Prv).map_err(|e| e.to_string()),
                    K::Pub(x) => if vi { x.derive_from_path_impl(p) } else { x.derive_from_path(p) }.map(K::Pub).map_err(|e| e.to_string()),
                })
            } else if bo(s, "neuter") {
                guarded(|| match &cur {
                    K::Prv(x) => Ok(K::Pub(ExtendedPublicKey::from_xpriv(x))),
                    K::Pub(_) => Err("already public".to_string()),
                })
            } else if bo(s, "reparse") {
                guarded(|| match &cur {
                    K::Prv(x) if vi => x.to_string_impl().and_then(|t| ExtendedPrivateKey::from_string_impl(&t)).map(K::Prv).map_err(|e| e.to_string()),
                    K::Pub(x) if vi => x.to_string_impl().and_then(|t| ExtendedPublicKey::from_string_impl(&t)).map(K::Pub).map_err(|e| e.to_string()),
                    K::Prv(x) => x.to_string().and_then(|t| ExtendedPrivateKey::from_string(&t)).map(K::Prv).map_err(|e| e.to_string()),
                    K::Pub(x) => x.to_string().and_then(|t| ExtendedPublicKey::from_string(&t)).map(K::Pub).map_err(|e| e.to_string()),
                })
            } else {
                return Err(drv(format!("bip32 step {}", s)));
            };
            match next {
                Ok(Ok(k)) => {
                    cur = k;
                    out.push(snap(&cur));
                }
                Ok(Err(e)) => {
                    out.push(json!({ "err": e }));
                    break;
                }
                Err(p) => {
                    out.push(json!({ "panic": p }));
                    break;
                }
            }
        }
    }
    Ok(Value::Array(out))
}
