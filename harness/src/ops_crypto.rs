//! ECDSA, signature codecs, recovery, ECDH, ECIES, BSM, hashes, HMAC, PBKDF2, AES.
use crate::ops_tx::mk_key;
use crate::util::*;
use bsv::*;
use serde_json::{json, Value};

pub fn dispatch(op: &str, req: &Value) -> Option<R> {
    Some(match op {
        "ecdsa_sign" => ecdsa_sign(req),
        "ecdsa_verify" => ecdsa_verify(req),
        "ecdh" => ecdh(req),
        "sig_from_der" => sig_from_der(req),
        "sig_from_compact" => sig_from_compact(req),
        "sig_to" => sig_to(req),
        "recover" => recover(req),
        "ecies_enc" => ecies_enc(req),
        "ecies_dec" => ecies_dec(req),
        "bsm_sign" => bsm_sign(req),
        "bsm_verify" => bsm_verify(req),
        "hash" => hash(req),
        "hmac" => hmac(req),
        "pbkdf2" => pbkdf2(req),
        "digest_chunks" => digest_chunks(req),
        "mnemonic" => mnemonic(req),
        "aes" => aes(req),
        "aes_mt" => aes_mt(req),
        "ecdh_mt" => ecdh_mt(req),
        _ => return None,
    })
}

fn hash_of(req: &Value) -> Result<SigningHash, E> {
    match st_opt(req, "hash").unwrap_or("sha256") {
        "sha256" => Ok(SigningHash::Sha256),
        "sha256d" => Ok(SigningHash::Sha256d),
        x => Err(drv(format!("hash {}", x))),
    }
}

pub fn sig_json(s: &Signature) -> Value {
    json!({
        "r": h(&s.r()), "s": h(&s.s()),
        "r_hex_eq": s.r_hex() == hex::encode(s.r()), "s_hex_eq": s.s_hex() == hex::encode(s.s()),
        "der": h(&s.to_der_bytes()), "der_hex_eq": s.to_der_hex() == hex::encode(s.to_der_bytes()),
        "compact": h(&s.to_compact_bytes(None)),
        "compact_hex_eq": s.to_compact_hex(None) == hex::encode(s.to_compact_bytes(None)),
    })
}

/// Build a Signature object from raw (r, s) through the public compact constructor.
pub fn sig_from_rs(req: &Value) -> Result<Signature, E> {
    if let Some(c) = hx_opt(req, "compact")? {
        return Signature::from_compact_bytes(&c).map_err(|e| drv(format!("compact: {}", e)));
    }
    let r = hx(req, "r")?;
    let s = hx(req, "s")?;
    if r.len() != 32 || s.len() != 32 {
        return Err(drv("r/s must be 32 bytes"));
    }
    let header = un_opt(req, "header").unwrap_or(31) as u8;
    if !(27..=34).contains(&header) {
        return Err(drv("header"));
    }
    let mut c = vec![header];
    c.extend_from_slice(&r);
    c.extend_from_slice(&s);
    Signature::from_compact_bytes(&c).map_err(|e| drv(format!("compact(r,s): {}", e)))
}

/// message given literally, or as {"len": n} (bytes i -> (i * 31 + 7) & 0xff) to avoid shipping tens of megabytes of hex
fn msg_of(req: &Value) -> Result<Vec<u8>, E> {
    match req.get("msg_gen") {
        Some(g) => {
            let n = un(g, "len")? as usize;
            Ok((0..n).map(|i| (i.wrapping_mul(31).wrapping_add(7)) as u8).collect())
        }
        None => hx(req, "msg"),
    }
}

fn ecdsa_sign(req: &Value) -> R {
    let key = mk_key(req, "key", "compressed")?;
    let mode = st(req, "mode")?;
    let msg = msg_of(req)?;
    let sig = match mode {
        "det" => ECDSA::sign_with_deterministic_k(&key, &msg, hash_of(req)?, bo(req, "reverse_k")).map_err(lib)?,
        "rand" => ECDSA::sign_with_random_k(&key, &msg, hash_of(req)?, bo(req, "reverse_k")).map_err(lib)?,
        "k" => {
            let k = PrivateKey::from_bytes(&hx(req, "k")?).map_err(|e| drv(format!("k: {}", e)))?;
            ECDSA::sign_with_k(&key, &k, &msg, hash_of(req)?).map_err(lib)?
        }
        "digest" => ECDSA::sign_digest_with_deterministic_k(&key, &msg).map_err(lib)?,
        "msg" => key.sign_message(&msg).map_err(lib)?,
        m => return Err(drv(format!("mode {}", m))),
    };
    let mut o = sig_json(&sig);
    o["pub"] = h(&key.to_public_key().map_err(lib)?.to_bytes().map_err(lib)?);
    Ok(o)
}

fn ecdsa_verify(req: &Value) -> R {
    let pk = PublicKey::from_bytes(&hx(req, "pub")?).map_err(|e| drv(format!("pub: {}", e)))?;
    let sig = sig_from_rs(req)?;
    let msg = msg_of(req)?;
    let hash = hash_of(req)?;
    let mut o = json!({
        "verify_digest": sub(|| ECDSA::verify_digest(&msg, &pk, &sig, hash), |b| json!(b)),
        "sig_verify_message": sub0(|| sig.verify_message(&msg, &pk), |b| json!(b)),
        "pub_verify_message": sub(|| pk.verify_message(&msg, &sig), |b| json!(b)),
        "pub_is_valid_message": sub0(|| pk.is_valid_message(&msg, &sig), |b| json!(b)),
    });
    if let Some(d) = hx_opt(req, "digest")? {
        o["verify_hashbuf"] = sub(|| ECDSA::verify_hashbuf(&d, &pk, &sig), |b| json!(b));
    }
    Ok(o)
}

fn ecdh(req: &Value) -> R {
    let key = mk_key(req, "key", "compressed")?;
    let pk = PublicKey::from_bytes(&hx(req, "pub")?).map_err(|e| drv(format!("pub: {}", e)))?;
    Ok(h(&ECDH::derive_shared_key(&key, &pk).map_err(lib)?))
}

fn sig_from_der(req: &Value) -> R {
    let b = hx(req, "hex")?;
    match st_opt(req, "via").unwrap_or("der") {
        "der" => Ok(sig_json(&Signature::from_der(&b).map_err(lib)?)),
        "hexder" => Ok(sig_json(&Signature::from_hex_der(&hex::encode(&b)).map_err(lib)?)),
        "sighash" => {
            let buf = hx_opt(req, "buf")?.unwrap_or_default();
            let s = SighashSignature::from_bytes(&b, &buf).map_err(lib)?;
            Ok(json!({"bytes": h(&s.to_bytes().map_err(lib)?), "hex_eq": s.to_hex().map_err(lib)? == hex::encode(s.to_bytes().map_err(lib)?)}))
        }
        v => Err(drv(format!("via {}", v))),
    }
}

fn sig_from_compact(req: &Value) -> R {
    let b = hx(req, "hex")?;
    if bo(req, "via_impl") {
        return Ok(sig_json(&Signature::from_compact_impl(&b).map_err(lib)?));
    }
    Ok(sig_json(&Signature::from_compact_bytes(&b).map_err(lib)?))
}

/// Serialise a signature given as (r, s [, header]) in every form.
fn sig_to(req: &Value) -> R {
    let sig = sig_from_rs(req)?;
    let mut o = sig_json(&sig);
    if let Some(f) = un_opt(req, "flag") {
        use std::convert::TryFrom;
        let flag = SigHash::try_from(f as u8).map_err(|e| drv(format!("flag: {}", e)))?;
        let ss = SighashSignature::new(&sig, flag, &[]);
        o["der_flag"] = h(&ss.to_bytes().map_err(lib)?);
    }
    if let Some(ri) = req.get("recovery").and_then(|x| x.as_array()) {
        let g = |i: usize| ri.get(i).and_then(|x| x.as_bool()).unwrap_or(false);
        o["compact_with"] = h(&sig.to_compact_bytes(Some(RecoveryInfo::new(g(0), g(1), g(2)))));
    }
    if let Some(rb) = un_opt(req, "recovery_byte") {
        o["compact_from_byte"] = h(&sig.to_compact_bytes(Some(RecoveryInfo::from_byte(rb as u8, bo(req, "rb_compressed")))));
    }
    Ok(o)
}

fn recover(req: &Value) -> R {
    let sig = Signature::from_compact_bytes(&hx(req, "compact")?).map_err(|e| drv(format!("compact: {}", e)))?;
    let inner = bo(req, "inner");
    let pk = match hx_opt(req, "digest")? {
        Some(d) if inner => sig.get_public_key_from_digest(&d).map_err(lib)?,
        Some(d) => sig.recover_public_key_from_digest(&d).map_err(lib)?,
        None if inner => sig.get_public_key(&hx(req, "msg")?, hash_of(req)?).map_err(lib)?,
        None => sig.recover_public_key(&hx(req, "msg")?, hash_of(req)?).map_err(lib)?,
    };
    Ok(json!({"pub": h(&pk.to_bytes().map_err(lib)?), "compressed": pk.is_compressed()}))
}

fn ecies_enc(req: &Value) -> R {
    let msg = hx(req, "msg")?;
    let recipient = PublicKey::from_bytes(&hx(req, "pub")?).map_err(|e| drv(format!("pub: {}", e)))?;
    let ct = match st_opt(req, "mode").unwrap_or("encrypt") {
        "encrypt" => ECIES::encrypt(&msg, &mk_key(req, "key", "compressed")?, &recipient, bo(req, "exclude")).map_err(lib)?,
        "ephemeral" => ECIES::encrypt_with_ephemeral_private_key(&msg, &recipient).map_err(lib)?,
        // PrivateKey::encrypt_message: to self
        "self" => mk_key(req, "key", "compressed")?.encrypt_message(&msg).map_err(lib)?,
        // PublicKey::encrypt_message
        "pubkey" => recipient.encrypt_message(&msg, &mk_key(req, "key", "compressed")?).map_err(lib)?,
        m => return Err(drv(format!("mode {}", m))),
    };
    let mut o = json!({"bytes": h(&ct.to_bytes()), "ciphertext": h(&ct.get_ciphertext()), "hmac": h(&ct.get_hmac())});
    o["extract"] = sub(|| ct.extract_public_key().and_then(|p| p.to_bytes()), |b| h(&b));
    if let Some(k) = ct.get_cipher_keys() {
        o["keys"] = json!({"iv": h(&k.get_iv()), "ke": h(&k.get_ke()), "km": h(&k.get_km())});
    }
    // the public key-derivation entry point, from both sides of the exchange
    if !bo(req, "no_derive") {
        let kj = |k: CipherKeys| json!({"iv": hex::encode(k.get_iv()), "ke": hex::encode(k.get_ke()), "km": hex::encode(k.get_km())});
        if let Ok(sk) = mk_key(req, "key", "compressed") {
            o["derive_sender"] = sub(|| ECIES::derive_cipher_keys(&sk, &recipient), kj);
            if let Some(rk) = hx_opt(req, "recipient_key")? {
                let rk = PrivateKey::from_bytes(&rk).map_err(|e| drv(format!("recipient_key: {}", e)))?;
                let spub = sk.to_public_key().map_err(lib)?;
                o["derive_recipient"] = sub(|| ECIES::derive_cipher_keys(&rk, &spub), kj);
            }
        }
    }
    // decrypt directly from the in-memory object too (before any serialisation trip)
    if let Some(rk) = hx_opt(req, "recipient_key")? {
        let rk = PrivateKey::from_bytes(&rk).map_err(|e| drv(format!("recipient_key: {}", e)))?;
        let sender_pub = match ct.extract_public_key() {
            Ok(p) => p,
            Err(_) => mk_key(req, "key", "compressed")?.to_public_key().map_err(lib)?,
        };
        o["direct_decrypt"] = sub(|| ECIES::decrypt(&ct, &rk, &sender_pub), |b| h(&b));
        // the genuine sender key handed over in the OTHER SEC1 form (a key is a point, not an encoding)
        let other_form = if sender_pub.is_compressed() { sender_pub.to_decompressed() } else { sender_pub.to_compressed() };
        if let Ok(of) = other_form {
            o["direct_decrypt_other_form"] = sub(|| ECIES::decrypt(&ct, &rk, &of), |b| h(&b));
            o["direct_decrypt_other_form_via_key"] = sub(|| rk.decrypt_message(&ct, &of), |b| h(&b));
        }
        // immediately afterwards, on the same thread: the NEGATED sender key (same x coordinate, other parity), then the genuine key again
        if let Ok(sb) = sender_pub.to_compressed().and_then(|p| p.to_bytes()) {
            let mut nb = sb.clone();
            nb[0] ^= 1;
            if let Ok(neg) = PublicKey::from_bytes(&nb) {
                o["direct_decrypt_negated_sender"] = sub(|| ECIES::decrypt(&ct, &rk, &neg), |b| h(&b));
                o["direct_decrypt_negated_sender_via_key"] = sub(|| rk.decrypt_message(&ct, &neg), |b| h(&b));
                o["direct_decrypt_again"] = sub(|| ECIES::decrypt(&ct, &rk, &sender_pub), |b| h(&b));
            }
        }
        // the same in-memory object with a wrong recipient key / a wrong sender key (must not yield plaintext)
        if let Some(wk) = hx_opt(req, "wrong_key")? {
            let wk = PrivateKey::from_bytes(&wk).map_err(|e| drv(format!("wrong_key: {}", e)))?;
            o["direct_decrypt_wrong_recipient"] = sub(|| ECIES::decrypt(&ct, &wk, &sender_pub), |b| h(&b));
            o["direct_decrypt_wrong_recipient_via_key"] = sub(|| wk.decrypt_message(&ct, &sender_pub), |b| h(&b));
            let wpub = wk.to_public_key().map_err(lib)?;
            o["direct_decrypt_wrong_sender"] = sub(|| ECIES::decrypt(&ct, &rk, &wpub), |b| h(&b));
            o["direct_decrypt_wrong_sender_via_key"] = sub(|| rk.decrypt_message(&ct, &wpub), |b| h(&b));
        }
    }
    Ok(o)
}

fn ecies_dec(req: &Value) -> R {
    let b = hx(req, "bytes")?;
    let has_pub = bo(req, "has_pub");
    let key = mk_key(req, "key", "compressed")?;
    let ct = match guarded(|| ECIESCiphertext::from_bytes(&b, has_pub)) {
        Ok(Ok(c)) => c,
        Ok(Err(e)) => return Ok(json!({"stage": "parse", "err": e.to_string()})),
        Err(p) => return Ok(json!({"stage": "parse", "panic": p})),
    };
    let sender = match hx_opt(req, "sender_pub")? {
        Some(p) => PublicKey::from_bytes(&p).map_err(|e| drv(format!("sender_pub: {}", e)))?,
        None => match guarded(|| ct.extract_public_key()) {
            Ok(Ok(p)) => p,
            Ok(Err(e)) => return Ok(json!({"stage": "extract", "err": e.to_string()})),
            Err(p) => return Ok(json!({"stage": "extract", "panic": p})),
        },
    };
    let r = if bo(req, "via_key") { guarded(|| key.decrypt_message(&ct, &sender)) } else { guarded(|| ECIES::decrypt(&ct, &key, &sender)) };
    Ok(match r {
        Ok(Ok(p)) => json!({"stage": "done", "plain": h(&p), "reser": h(&ct.to_bytes())}),
        Ok(Err(e)) => json!({"stage": "decrypt", "err": e.to_string()}),
        Err(p) => json!({"stage": "decrypt", "panic": p}),
    })
}

fn addr_of(req: &Value) -> Result<P2PKHAddress, E> {
    if let Some(s) = st_opt(req, "address") {
        return P2PKHAddress::from_string(s).map_err(|e| drv(format!("address: {}", e)));
    }
    let hash = hx(req, "addr_hash")?;
    let a = P2PKHAddress::from_pubkey_hash(&hash).map_err(|e| drv(format!("addr_hash: {}", e)))?;
    match un_opt(req, "prefix") {
        Some(p) => a.set_chain_params(&ChainParams::new(p as u8, 5, 0x80, 0, 0, 0)).map_err(|e| drv(format!("chain: {}", e))),
        None => Ok(a),
    }
}

fn bsm_sign(req: &Value) -> R {
    let key = if bo(req, "warm") {
        // the key object is USED in the other compression form first (public key, point, WIF, address), then switched
        let c = req.get("compressed").and_then(|x| x.as_bool()).unwrap_or(true);
        let k0 = PrivateKey::from_bytes(&hx(req, "key")?).map_err(|e| drv(format!("key: {}", e)))?.compress_public_key(!c);
        let _ = (k0.to_public_key().map(|p| p.to_p2pkh_address().is_ok()).is_ok(), k0.get_point().len(), k0.to_wif().is_ok());
        k0.compress_public_key(c)
    } else {
        mk_key(req, "key", "compressed")?
    };
    let msg = msg_of(req)?;
    let sig = match hx_opt(req, "k")? {
        Some(k) => BSM::sign_message_with_k(&key, &PrivateKey::from_bytes(&k).map_err(|e| drv(format!("k: {}", e)))?, &msg).map_err(lib)?,
        None => BSM::sign_message(&key, &msg).map_err(lib)?,
    };
    let mut o = sig_json(&sig);
    o["key_address_hash"] = sub(|| key.to_public_key().and_then(|p| p.to_p2pkh_address()), |a| h(&a.to_pubkey_hash()));
    if bo(req, "skip_verify") {
        // nothing is verified here: the caller wants the FIRST check of these signature bytes to be one of its own choosing
        return Ok(o);
    }
    o["verify_own_address"] = sub(|| key.to_public_key().and_then(|p| p.to_p2pkh_address()).and_then(|a| BSM::verify_message(&msg, &sig, &a)), |b| json!(b));
    // verification with the in-memory signature object (no compact trip) against the requested address
    if req.get("addr_hash").is_some() || req.get("address").is_some() {
        let a = addr_of(req)?;
        o["verify_direct"] = sub(|| BSM::verify_message(&msg, &sig, &a), |b| json!(b));
    }
    Ok(o)
}

fn bsm_verify(req: &Value) -> R {
    let msg = msg_of(req)?;
    let a = addr_of(req)?;
    let sig = match guarded(|| Signature::from_compact_bytes(&hx(req, "compact").unwrap_or_default())) {
        Ok(Ok(s)) => s,
        Ok(Err(e)) => return Ok(json!({ "sig_err": e.to_string() })),
        Err(p) => return Ok(json!({ "sig_panic": p })),
    };
    Ok(json!({
        "bsm_verify": sub(|| BSM::verify_message(&msg, &sig, &a), |b| json!(b)),
        "bsm_is_valid": sub0(|| BSM::is_valid_message(&msg, &sig, &a), |b| json!(b)),
        "addr_verify": sub(|| a.verify_bitcoin_message(&msg, &sig), |b| json!(b)),
        "addr_is_valid": sub0(|| a.is_valid_bitcoin_message(&msg, &sig), |b| json!(b)),
    }))
}

fn hash(req: &Value) -> R {
    let m = msg_of(req)?;
    let hsh = match st(req, "fn")? {
        "sha1" => Hash::sha_1(&m),
        "sha256" => Hash::sha_256(&m),
        "sha256d" => Hash::sha_256d(&m),
        "sha512" => Hash::sha_512(&m),
        "ripemd160" => Hash::ripemd_160(&m),
        "hash160" => Hash::hash_160(&m),
        f => return Err(drv(format!("fn {}", f))),
    };
    Ok(json!({"bytes": h(&hsh.to_bytes()), "hex_eq": hsh.to_hex() == hex::encode(hsh.to_bytes())}))
}

fn hmac(req: &Value) -> R {
    let m = msg_of(req)?;
    let k = hx(req, "key")?;
    let hsh = match st(req, "fn")? {
        "sha1" => Hash::sha_1_hmac(&m, &k),
        "sha256" => Hash::sha_256_hmac(&m, &k),
        "sha256d" => Hash::sha_256d_hmac(&m, &k),
        "sha512" => Hash::sha_512_hmac(&m, &k),
        "ripemd160" => Hash::ripemd_160_hmac(&m, &k),
        "hash160" => Hash::hash_160_hmac(&m, &k),
        f => return Err(drv(format!("fn {}", f))),
    };
    Ok(h(&hsh.to_bytes()))
}

fn pbkdf2(req: &Value) -> R {
    let algo = match st(req, "fn")? {
        "sha1" => PBKDF2Hashes::SHA1,
        "sha256" => PBKDF2Hashes::SHA256,
        "sha512" => PBKDF2Hashes::SHA512,
        f => return Err(drv(format!("fn {}", f))),
    };
    // salt absent => the library draws a random salt and reports it
    let k = match (bo(req, "via_impl"), hx_opt(req, "salt")?) {
        (true, Some(salt)) => KDF::pbkdf2_impl(&hx(req, "password")?, &salt, algo, un(req, "rounds")? as u32, un(req, "len")? as usize),
        (_, salt) => KDF::pbkdf2(&hx(req, "password")?, salt, algo, un(req, "rounds")? as u32, un(req, "len")? as usize),
    };
    Ok(json!({"hash": h(&k.get_hash().to_bytes()), "salt": h(&k.get_salt())}))
}

fn digest_chunks(req: &Value) -> R {
    use digest::{FixedOutput, Update};
    let chunks: Result<Vec<Vec<u8>>, E> =
        arr(req, "chunks")?.iter().map(|c| c.as_str().ok_or_else(|| drv("chunk")).and_then(|s| hex::decode(s).map_err(drv))).collect();
    let chunks = chunks?;
    let rev = bo(req, "reverse");
    fn run<D: Update + FixedOutput + ReversibleDigest + Default>(chunks: &[Vec<u8>], rev: bool) -> Vec<u8> {
        let mut d = D::default();
        for c in chunks {
            d.update(c);
        }
        let d = if rev { d.reverse() } else { d };
        d.finalize_fixed().to_vec()
    }
    /// the same adapter object used three times: finalize_fixed_reset, again finalize_fixed_reset, then an explicit reset
    fn reuse<D: Update + FixedOutput + digest::Reset + ReversibleDigest + Default>(chunks: &[Vec<u8>], rev: bool) -> Vec<Vec<u8>> {
        let mut d = if rev { D::default().reverse() } else { D::default() };
        let mut outs = vec![];
        for _ in 0..2 {
            for c in chunks {
                d.update(c);
            }
            outs.push(d.finalize_fixed_reset().to_vec());
        }
        d.update(b"garbage that the reset must discard");
        digest::Reset::reset(&mut d);
        for c in chunks {
            d.update(c);
        }
        outs.push(d.finalize_fixed().to_vec());
        outs
    }
    /// clone / clone_from between adapters whose reverse flags differ: the target must become an exact copy of the source
    fn cloned<D: Update + FixedOutput + ReversibleDigest + Default + Clone>(chunks: &[Vec<u8>], rev: bool) -> Vec<Vec<u8>> {
        let mut src = if rev { D::default().reverse() } else { D::default() };
        let cut = chunks.len() / 2;
        for c in &chunks[..cut] {
            src.update(c);
        }
        // target: other flag, already fed with junk
        let mut dst = if rev { D::default() } else { D::default().reverse() };
        dst.update(b"junk that clone_from must overwrite");
        dst.clone_from(&src);
        let mut cl = src.clone();
        for c in &chunks[cut..] {
            src.update(c);
            dst.update(c);
            cl.update(c);
        }
        vec![src.finalize_fixed().to_vec(), dst.finalize_fixed().to_vec(), cl.finalize_fixed().to_vec()]
    }
    if bo(req, "cloned") {
        let outs = match st(req, "kind")? {
            "sha256d" => cloned::<bsv::hash::sha256d_digest::Sha256d>(&chunks, rev),
            "sha256r" => cloned::<Sha256r>(&chunks, rev),
            "hash160" => cloned::<bsv::hash::hash160_digest::Hash160>(&chunks, rev),
            k => return Err(drv(format!("kind {} has no cloned mode", k))),
        };
        return Ok(Value::Array(outs.iter().map(|o| h(o)).collect()));
    }
    if bo(req, "reuse") {
        let outs = match st(req, "kind")? {
            "sha256d" => reuse::<bsv::hash::sha256d_digest::Sha256d>(&chunks, rev),
            "sha256r" => reuse::<Sha256r>(&chunks, rev),
            "hash160" => reuse::<bsv::hash::hash160_digest::Hash160>(&chunks, rev),
            k => return Err(drv(format!("kind {} has no reuse mode", k))),
        };
        return Ok(Value::Array(outs.iter().map(|o| h(o)).collect()));
    }
    let out = match st(req, "kind")? {
        "sha256d" => run::<bsv::hash::sha256d_digest::Sha256d>(&chunks, rev),
        "sha256r" => run::<Sha256r>(&chunks, rev),
        "hash160" => run::<bsv::hash::hash160_digest::Hash160>(&chunks, rev),
        // FixedOutput::finalize_into / finalize_into_reset into an output array that is NOT zeroed (a re-used buffer)
        "sha256d_into" | "sha256r_into" | "hash160_into" => {
            fn into_dirty<D: Update + FixedOutput + digest::Reset + ReversibleDigest + Default>(chunks: &[Vec<u8>], rev: bool) -> Vec<u8> {
                let mut d = if rev { D::default().reverse() } else { D::default() };
                for c in chunks {
                    d.update(c);
                }
                let mut out = digest::generic_array::GenericArray::<u8, D::OutputSize>::default();
                for b in out.iter_mut() {
                    *b = 0xEE;
                }
                d.finalize_into_reset(&mut out);
                let first = out.to_vec();
                for c in chunks {
                    d.update(c);
                }
                for b in out.iter_mut() {
                    *b = 0x77;
                }
                d.finalize_into(&mut out);
                let mut v = first;
                v.extend_from_slice(&out);
                v
            }
            match st(req, "kind")? {
                "sha256d_into" => into_dirty::<bsv::hash::sha256d_digest::Sha256d>(&chunks, rev),
                "sha256r_into" => into_dirty::<Sha256r>(&chunks, rev),
                _ => into_dirty::<bsv::hash::hash160_digest::Hash160>(&chunks, rev),
            }
        }
        // Digest-style chaining: reverse() first, then chain(data) for every chunk
        "sha256d_chain" | "sha256r_chain" | "hash160_chain" => {
            fn chained<D: Update + FixedOutput + ReversibleDigest + Default>(chunks: &[Vec<u8>], rev: bool) -> Vec<u8> {
                let mut d = if rev { D::default().reverse() } else { D::default() };
                for c in chunks {
                    d = d.chain(c);
                }
                d.finalize_fixed().to_vec()
            }
            match st(req, "kind")? {
                "sha256d_chain" => chained::<bsv::hash::sha256d_digest::Sha256d>(&chunks, rev),
                "sha256r_chain" => chained::<Sha256r>(&chunks, rev),
                _ => chained::<bsv::hash::hash160_digest::Hash160>(&chunks, rev),
            }
        }
        // the explicit constructor Hash160::new(reverse) instead of default() + reverse()
        "hash160_new" => {
            let mut d = bsv::hash::hash160_digest::Hash160::new(rev);
            for c in &chunks {
                d.update(c);
            }
            d.finalize_fixed().to_vec()
        }
        // the adapter the signers actually use
        "signing_sha256" | "signing_sha256d" => {
            let all: Vec<u8> = chunks.concat();
            let alg = if st(req, "kind")? == "signing_sha256" { SigningHash::Sha256 } else { SigningHash::Sha256d };
            let d = get_hash_digest(alg, &all);
            let d = if rev { d.reverse() } else { d };
            d.finalize_fixed().to_vec()
        }
        k => return Err(drv(format!("kind {}", k))),
    };
    Ok(h(&out))
}

fn mnemonic(req: &Value) -> R {
    let m = hx(req, "mnemonic")?;
    let pass = hx_opt(req, "passphrase")?;
    let x = ExtendedPrivateKey::from_mnemonic(&m, pass).map_err(lib)?;
    Ok(json!(x.to_string().map_err(lib)?))
}

/// Concurrency stress: `threads` threads encrypt (and decrypt) the given items again and again, each starting at another item, and
/// compare every result with the expected ciphertext supplied by the caller. Returns the number of mismatches and the first one.
fn aes_mt(req: &Value) -> R {
    let mut items: Vec<(AESAlgorithms, Vec<u8>, Vec<u8>, Vec<u8>, Vec<u8>)> = vec![];
    for it in arr(req, "items")? {
        let algo = match st(it, "mode")? {
            "128cbc" => AESAlgorithms::AES128_CBC,
            "256cbc" => AESAlgorithms::AES256_CBC,
            "128ctr" => AESAlgorithms::AES128_CTR,
            "256ctr" => AESAlgorithms::AES256_CTR,
            m => return Err(drv(format!("mode {}", m))),
        };
        items.push((algo, hx(it, "key")?, hx(it, "iv")?, hx(it, "msg")?, hx(it, "exp")?));
    }
    let threads = un_opt(req, "threads").unwrap_or(8) as usize;
    let iters = un_opt(req, "iters").unwrap_or(2000) as usize;
    let items = std::sync::Arc::new(items);
    let mut hs = vec![];
    for t in 0..threads {
        let items = items.clone();
        hs.push(std::thread::spawn(move || {
            let mut bad = 0u64;
            let mut first: Option<(usize, String)> = None;
            let n = items.len();
            for i in 0..iters {
                let j = (i + t * 7) % n;
                let (algo, k, iv, m, exp) = &items[j];
                match AES::encrypt(k, iv, m, *algo) {
                    Ok(ct) if &ct == exp => match AES::decrypt(k, iv, &ct, *algo) {
                        Ok(pt) if &pt == m => {}
                        other => {
                            bad += 1;
                            first.get_or_insert((j, format!("decrypt: {:?}", other.map(|v| v.len()).map_err(|e| e.to_string()))));
                        }
                    },
                    other => {
                        bad += 1;
                        first.get_or_insert((j, format!("encrypt: {:?}", other.map(|v| hex::encode(&v[..v.len().min(16)])).map_err(|e| e.to_string()))));
                    }
                }
            }
            (bad, first)
        }));
    }
    let mut total = 0u64;
    let mut first = Value::Null;
    for h_ in hs {
        match h_.join() {
            Ok((b, f)) => {
                total += b;
                if first.is_null() {
                    if let Some((j, s_)) = f {
                        first = json!({"item": j, "what": s_});
                    }
                }
            }
            Err(_) => {
                total += 1;
                first = json!({"what": "a worker thread panicked"});
            }
        }
    }
    Ok(json!({"mismatches": total, "first": first, "calls": threads * iters}))
}

/// Concurrency stress for ECDH: every thread derives shared secrets for the given (private key, public key) pairs over and over,
/// starting at a different pair, and compares each result with the expected secret supplied by the caller.
fn ecdh_mt(req: &Value) -> R {
    let mut items: Vec<(PrivateKey, PublicKey, Vec<u8>)> = vec![];
    for it in arr(req, "items")? {
        items.push((PrivateKey::from_bytes(&hx(it, "key")?).map_err(|e| drv(format!("key: {}", e)))?, PublicKey::from_bytes(&hx(it, "pub")?).map_err(|e| drv(format!("pub: {}", e)))?, hx(it, "exp")?));
    }
    let threads = un_opt(req, "threads").unwrap_or(8) as usize;
    let iters = un_opt(req, "iters").unwrap_or(500) as usize;
    let items = std::sync::Arc::new(items);
    let mut hs = vec![];
    for t in 0..threads {
        let items = items.clone();
        hs.push(std::thread::spawn(move || {
            let mut bad = 0u64;
            let n = items.len();
            for i in 0..iters {
                let (k, p, exp) = &items[(i + t * 3) % n];
                match ECDH::derive_shared_key(k, p) {
                    Ok(s_) if &s_ == exp => {}
                    _ => bad += 1,
                }
            }
            bad
        }));
    }
    let mut total = 0u64;
    for h_ in hs {
        total += h_.join().unwrap_or(1);
    }
    Ok(json!({"mismatches": total, "calls": threads * iters}))
}

fn aes(req: &Value) -> R {
    let algo = match st(req, "mode")? {
        "128cbc" => AESAlgorithms::AES128_CBC,
        "256cbc" => AESAlgorithms::AES256_CBC,
        "128ctr" => AESAlgorithms::AES128_CTR,
        "256ctr" => AESAlgorithms::AES256_CTR,
        m => return Err(drv(format!("mode {}", m))),
    };
    let (k, iv, m) = (hx(req, "key")?, hx(req, "iv")?, msg_of(req)?);
    let vi = bo(req, "via_impl");
    // `misalign`: the message (and key / IV) are handed over as sub-slices that start `misalign` bytes into a larger buffer
    let off = un_opt(req, "misalign").unwrap_or(0) as usize;
    let (kb, ivb, mb) = if off > 0 {
        let pad = |v: &Vec<u8>| {
            let mut b = vec![0xEEu8; off];
            b.extend_from_slice(v);
            b
        };
        (pad(&k), pad(&iv), pad(&m))
    } else {
        (k.clone(), iv.clone(), m.clone())
    };
    let (k, iv, m) = (&kb[off..], &ivb[off..], &mb[off..]);
    let out = match st(req, "dir")? {
        "enc" if vi => AES::encrypt_impl(&k, &iv, &m, algo).map_err(lib)?,
        "dec" if vi => AES::decrypt_impl(&k, &iv, &m, algo).map_err(lib)?,
        "enc" => AES::encrypt(&k, &iv, &m, algo).map_err(lib)?,
        "dec" => AES::decrypt(&k, &iv, &m, algo).map_err(lib)?,
        d => return Err(drv(format!("dir {}", d))),
    };
    if bo(req, "digest_only") {
        // large outputs: length + SHA-256 (std of the sha2 crate through the library's own one-shot hash is avoided: plain sum + xor fold too)
        let sum: u64 = out.iter().map(|b| *b as u64).sum();
        return Ok(json!({"len": out.len(), "sha256": Hash::sha_256(&out).to_hex(), "sum": sum, "head": hex::encode(&out[..out.len().min(32)]), "tail": hex::encode(&out[out.len().saturating_sub(32)..])}));
    }
    Ok(h(&out))
}
