//! bsvdrv — thin RPC adapter over the public API of the `bsv` crate.
//! One JSON request per line in, one JSON response per line out. No judgement happens here.
mod alloc;
mod ops_crypto;
mod ops_decode;
mod ops_interp;
mod ops_keys;
mod ops_script;
mod ops_tx;
mod util;

use serde_json::{json, Value};
use std::io::{BufRead, BufReader, Write};
use std::sync::atomic::Ordering::Relaxed;
use util::*;

#[global_allocator]
static GLOBAL: alloc::Counting = alloc::Counting;

extern "C" {
    fn dup(fd: i32) -> i32;
    fn dup2(a: i32, b: i32) -> i32;
}

fn dispatch(req: &Value) -> R {
    let op = st(req, "op")?;
    match op {
        "ping" => Ok(json!("pong")),
        // deliberate misbehaviour, used only by the harness self-test of the supervisor
        "selftest_panic" => panic!("selftest panic"),
        "selftest_alloc" => {
            let n = un(req, "n")? as usize;
            let v: Vec<u8> = vec![0; n];
            Ok(json!(v.len()))
        }
        "selftest_abort" => std::process::abort(),
        _ => {
            if let Some(r) = ops_tx::dispatch(op, req) {
                return r;
            }
            if let Some(r) = ops_script::dispatch(op, req) {
                return r;
            }
            if let Some(r) = ops_crypto::dispatch(op, req) {
                return r;
            }
            if let Some(r) = ops_keys::dispatch(op, req) {
                return r;
            }
            if let Some(r) = ops_interp::dispatch(op, req) {
                return r;
            }
            if let Some(r) = ops_decode::dispatch(op, req) {
                return r;
            }
            Err(drv(format!("unknown op {}", op)))
        }
    }
}

/// Requests are served on ONE worker thread (thread-local state of the library survives between requests, as in an application
/// that keeps using one thread) whose stack has the size of an ordinary spawned Rust thread: 2 MiB, the default of
/// `std::thread::spawn`, of the libtest harness and of most runtimes' workers. `BSVDRV_STACK` overrides it.
fn main() {
    #[cfg(miri)]
    {
        real_main();
        return;
    }
    #[cfg(not(miri))]
    {
        let sz = std::env::var("BSVDRV_STACK").ok().and_then(|s| s.parse::<usize>().ok()).unwrap_or(2 << 20);
        let h = std::thread::Builder::new().name("bsvdrv-worker".into()).stack_size(sz).spawn(real_main).expect("cannot spawn the worker thread");
        let _ = h.join();
    }
}

fn real_main() {
    let args: Vec<String> = std::env::args().collect();
    let mut in_path: Option<String> = None;
    let mut out_path: Option<String> = None;
    let mut i = 1;
    while i < args.len() {
        match args[i].as_str() {
            "--in" => {
                in_path = args.get(i + 1).cloned();
                i += 1;
            }
            "--out" => {
                out_path = args.get(i + 1).cloned();
                i += 1;
            }
            _ => {}
        }
        i += 1;
    }

    // Responses go to a private fd; the library println!s to fd 1.
    let mut out: Box<dyn Write> = match &out_path {
        Some(p) => {
            let f = std::fs::File::create(p).expect("cannot create --out file");
            #[cfg(unix)]
            {
                use std::os::unix::io::AsRawFd;
                alloc::OUT_FD.store(f.as_raw_fd(), Relaxed);
            }
            Box::new(f)
        }
        None => {
            #[cfg(not(miri))]
            unsafe {
                use std::os::unix::io::{AsRawFd, FromRawFd};
                let fd = dup(1);
                let devnull = std::fs::OpenOptions::new().write(true).open("/dev/null").expect("open /dev/null");
                dup2(devnull.as_raw_fd(), 1);
                alloc::OUT_FD.store(fd, Relaxed);
                Box::new(std::fs::File::from_raw_fd(fd))
            }
            #[cfg(miri)]
            {
                let _ = (dup as unsafe extern "C" fn(i32) -> i32, dup2 as unsafe extern "C" fn(i32, i32) -> i32);
                Box::new(std::io::stderr())
            }
        }
    };

    install_hook();

    let input: Box<dyn BufRead> = match &in_path {
        Some(p) => Box::new(BufReader::new(std::fs::File::open(p).expect("cannot open --in file"))),
        None => Box::new(BufReader::new(std::io::stdin())),
    };

    for line in input.lines() {
        let line = match line {
            Ok(l) => l,
            Err(_) => break,
        };
        if line.trim().is_empty() {
            continue;
        }
        let req: Value = match serde_json::from_str(&line) {
            Ok(v) => v,
            Err(e) => {
                let _ = writeln!(out, "{}", json!({"id": null, "drv_err": format!("bad json: {}", e)}));
                let _ = out.flush();
                continue;
            }
        };
        let id = req.get("id").and_then(|x| x.as_u64()).unwrap_or(0);
        let guard = req.get("guard").and_then(|x| x.as_u64()).map(|x| x as usize);
        alloc::begin(id, guard);
        let res = guarded(|| dispatch(&req));
        let (peak, maxa) = alloc::end();
        let mut resp = match res {
            Ok(Ok(v)) => json!({ "ok": v }),
            Ok(Err(E::Lib(e))) => json!({ "err": e }),
            Ok(Err(E::Drv(e))) => json!({ "drv_err": e }),
            Err(p) => json!({ "panic": p }),
        };
        resp["id"] = json!(id);
        resp["peak"] = json!(peak);
        resp["maxa"] = json!(maxa);
        let _ = writeln!(out, "{}", resp);
        let _ = out.flush();
    }
}
