//! Script interpreter: single-stepping vs run, on parsed / constructed / transaction-bound scripts.
use crate::ops_script::bits_from_json;
use crate::ops_tx::apply_ext;
use crate::util::*;
use bsv::*;
use serde_json::{json, Value};

pub fn dispatch(op: &str, req: &Value) -> Option<R> {
    Some(match op {
        "interp" => interp(req),
        _ => return None,
    })
}

use std::sync::atomic::{AtomicBool, Ordering::Relaxed};

/// compact mode: elements longer than 64 bytes are reported as "<len>:<sha256 prefix>" instead of hex (for programs that build huge elements)
static COMPACT: AtomicBool = AtomicBool::new(false);

fn stack_json(s: &[Vec<u8>]) -> Value {
    let compact = COMPACT.load(Relaxed);
    Value::Array(
        s.iter()
            .map(|x| {
                if compact && x.len() > 64 {
                    Value::String(format!("{}:{}", x.len(), &Hash::sha_256(x).to_hex()[..16]))
                } else {
                    Value::String(hex::encode(x))
                }
            })
            .collect(),
    )
}

fn state_json(s: &State) -> Value {
    json!({"stack": stack_json(&s.stack), "alt": stack_json(&s.alt_stack)})
}

fn make(req: &Value) -> Result<Interpreter, E> {
    if let Some(b) = hx_opt(req, "script")? {
        let s = Script::from_bytes(&b).map_err(|e| drv(format!("script parse: {}", e)))?;
        Ok(Interpreter::from_script(&s))
    } else if let Some(cb) = req.get("ctor_bits") {
        // the public constructor that takes a transaction, an input index (not checked by it) and an element list
        let tx = Transaction::from_bytes(&hx(cb, "tx")?).map_err(|e| drv(format!("tx parse: {}", e)))?;
        Ok(Interpreter::from_transaction_and_script_bits(tx, un(cb, "txin")? as usize, bits_from_json(get(cb, "bits")?)?))
    } else if let Some(bits) = req.get("bits") {
        let s = Script::from_script_bits(bits_from_json(bits)?);
        Ok(Interpreter::from_script(&s))
    } else {
        let mut tx = Transaction::from_bytes(&hx(req, "tx")?).map_err(|e| drv(format!("tx parse: {}", e)))?;
        apply_ext(&mut tx, req)?;
        let idx = un(req, "idx")? as usize;
        if idx >= tx.get_ninputs() {
            return Err(drv("interp idx out of range"));
        }
        // scripts of the spending input handed over as element lists through the construction API (conditionals may be FLAT opcodes)
        if let Some(ab) = req.get("api_bits") {
            let mut inp = tx.get_input(idx).ok_or_else(|| drv("api_bits idx"))?;
            if let Some(u) = ab.get("unlock") {
                inp.set_unlocking_script(&Script::from_script_bits(bits_from_json(u)?));
            }
            if let Some(l) = ab.get("lock") {
                inp.set_locking_script(&Script::from_script_bits(bits_from_json(l)?));
            }
            tx.set_input(idx, &inp);
        }
        Interpreter::from_transaction(&tx, idx).map_err(lib)
    }
}

fn interp(req: &Value) -> R {
    COMPACT.store(bo(req, "compact"), Relaxed);
    let max_steps = un(req, "max_steps")? as usize;
    let trace = bo(req, "trace");
    let mode = st_opt(req, "mode").unwrap_or("both");
    let mut o = json!({});

    if mode == "both" || mode == "step" {
        let mut a = match guarded(|| make(req)) {
            Ok(r) => r?,
            Err(p) => return Ok(json!({ "make_panic": p })),
        };
        o["n_bits"] = json!(a.script_bits().len());
        let mut n_ok = 0usize;
        let mut last_ok = state_json(&a.state());
        let mut tr = vec![];
        let mut end = json!("none");
        let mut detail = Value::Null;
        loop {
            if n_ok > max_steps {
                end = json!("bound");
                break;
            }
            // Iterator::size_hint before every step (what collect() / zip() / extend() consult)
            if let Err(p) = guarded(|| {
                let (lo, hi) = a.size_hint();
                hi.map_or(true, |h| lo <= h)
            }) {
                end = json!("panic");
                detail = p;
                break;
            }
            match guarded(|| a.next()) {
                Ok(None) => break,
                Ok(Some(Ok(s))) => {
                    n_ok += 1;
                    last_ok = state_json(&s);
                    if trace {
                        tr.push(last_ok.clone());
                    }
                }
                Ok(Some(Err(e))) => {
                    end = json!("err");
                    detail = json!(e.to_string());
                    break;
                }
                Err(p) => {
                    end = json!("panic");
                    detail = p;
                    break;
                }
            }
        }
        // ... and once more after the loop has ended (an adaptor may ask a finished iterator again)
        let hint_after = match guarded(|| a.size_hint()) {
            Ok((lo, hi)) => json!({"lo": lo, "hi": hi}),
            Err(p) => json!({ "panic": p }),
        };
        let post = match guarded(|| a.state()) {
            Ok(s) => state_json(&s),
            Err(p) => json!({ "panic": p }),
        };
        // which script bit the interpreter was positioned on when it stopped (shallow description)
        let at = match guarded(|| a.script_bits().get(a.script_index()).map(|b| match b {
            ScriptBit::OpCode(c) => json!({ "op": *c as u8 }),
            ScriptBit::Push(d) => json!({ "push": d.len() }),
            ScriptBit::PushData(c, d) => json!({ "pd": *c as u8, "len": d.len() }),
            ScriptBit::If { code, .. } => json!({ "if": *code as u8 }),
            ScriptBit::Coinbase(d) => json!({ "cb": d.len() }),
        })) {
            Ok(v) => json!(v),
            Err(p) => json!({ "panic": p }),
        };
        o["hint_after"] = hint_after;
        // the same program consumed through an iterator adaptor (collect), bounded by take()
        if bo(req, "collect") {
            if let Ok(Ok(mut c)) = guarded(|| make(req)) {
                o["collect"] = match guarded(|| c.by_ref().take(max_steps + 2).map(|r| r.is_ok()).collect::<Vec<bool>>()) {
                    Ok(v) => json!({"n": v.len(), "n_ok": v.iter().filter(|x| **x).count(), "post": state_json(&c.state())}),
                    Err(p) => json!({ "panic": p }),
                };
            }
        }
        o["step"] = json!({"n_ok": n_ok, "end": end, "detail": detail, "last_ok": last_ok, "post": post, "script_index": a.script_index(), "at": at});
        if trace {
            o["step"]["trace"] = Value::Array(tr);
        }
        if end == "bound" {
            o["run"] = json!({"end": "skipped"});
            return Ok(o);
        }
    }

    if mode == "both" || mode == "run" {
        let mut b = match guarded(|| make(req)) {
            Ok(r) => r?,
            Err(p) => return Ok(json!({ "make_panic": p })),
        };
        let (end, detail) = match guarded(|| b.run()) {
            Ok(Ok(())) => (json!("ok"), Value::Null),
            Ok(Err(e)) => (json!("err"), json!(e.to_string())),
            Err(p) => (json!("panic"), p),
        };
        let post = match guarded(|| b.state()) {
            Ok(s) => state_json(&s),
            Err(p) => json!({ "panic": p }),
        };
        o["run"] = json!({"end": end, "detail": detail, "post": post, "script_index": b.script_index()});
        // an interpreter that stopped with an error asked to continue: it must keep failing and keep its stacks
        if end == "err" && bo(req, "after_finish") {
            let again = match guarded(|| b.run()) {
                Ok(Ok(())) => json!("ok"),
                Ok(Err(_)) => json!("err"),
                Err(p) => json!({ "panic": p }),
            };
            let nxt = match guarded(|| b.next()) {
                Ok(None) => json!("none"),
                Ok(Some(Ok(_))) => json!("state"),
                Ok(Some(Err(_))) => json!("err"),
                Err(p) => json!({ "panic": p }),
            };
            let post2 = match guarded(|| b.state()) {
                Ok(s) => state_json(&s),
                Err(p) => json!({ "panic": p }),
            };
            o["after_error"] = json!({"run_again": again, "next_again": nxt, "post": post2, "script_index": b.script_index()});
        }
        // a finished interpreter asked to continue: run() again and next() again must change nothing
        if end == "ok" && bo(req, "after_finish") {
            let again = match guarded(|| b.run()) {
                Ok(Ok(())) => json!("ok"),
                Ok(Err(e)) => json!({ "err": e.to_string() }),
                Err(p) => json!({ "panic": p }),
            };
            let nxt = match guarded(|| b.next()) {
                Ok(None) => json!("none"),
                Ok(Some(Ok(_))) => json!("state"),
                Ok(Some(Err(e))) => json!({ "err": e.to_string() }),
                Err(p) => json!({ "panic": p }),
            };
            let post2 = match guarded(|| b.state()) {
                Ok(s) => state_json(&s),
                Err(p) => json!({ "panic": p }),
            };
            o["after_finish"] = json!({"run_again": again, "next_again": nxt, "post": post2, "script_index": b.script_index()});
        }
    }

    // mixed: k single steps, then the interpreter object goes through a serde JSON round trip or a clone, then run() to completion
    if let Some(mx) = req.get("mixed") {
        let k = un(mx, "k")? as usize;
        let mut c = match guarded(|| make(req)) {
            Ok(r) => r?,
            Err(p) => return Ok(json!({ "make_panic": p })),
        };
        let mut stopped = Value::Null;
        let mut done = 0usize;
        for _ in 0..k {
            match guarded(|| c.next()) {
                Ok(None) => {
                    stopped = json!("none");
                    break;
                }
                Ok(Some(Ok(_))) => done += 1,
                Ok(Some(Err(e))) => {
                    stopped = json!({ "err": e.to_string() });
                    break;
                }
                Err(p) => {
                    stopped = json!({ "panic": p });
                    break;
                }
            }
        }
        let mut via_err = Value::Null;
        let mut bits_preserved = true;
        if stopped.is_null() {
            match st_opt(mx, "via").unwrap_or("json") {
                "json" => match guarded(|| serde_json::to_string(&c).map_err(|e| e.to_string()).and_then(|t| serde_json::from_str::<Interpreter>(&t).map_err(|e| e.to_string()))) {
                    Ok(Ok(n)) => {
                        bits_preserved = n.script_bits() == c.script_bits();
                        c = n
                    }
                    Ok(Err(e)) => via_err = json!({ "err": e }),
                    Err(p) => via_err = json!({ "panic": p }),
                },
                "clone" => c = c.clone(),
                _ => {}
            }
        }
        let (end, detail) = if !stopped.is_null() || !via_err.is_null() {
            (json!("not_run"), Value::Null)
        } else {
            match guarded(|| c.run()) {
                Ok(Ok(())) => (json!("ok"), Value::Null),
                Ok(Err(e)) => (json!("err"), json!(e.to_string())),
                Err(p) => (json!("panic"), p),
            }
        };
        let post = match guarded(|| c.state()) {
            Ok(s) => state_json(&s),
            Err(p) => json!({ "panic": p }),
        };
        o["mixed"] = json!({"bits_preserved": bits_preserved, "stepped": done, "stopped": stopped, "via_err": via_err, "end": end, "detail": detail, "post": post, "script_index": c.script_index()});
    }
    Ok(o)
}
